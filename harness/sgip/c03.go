//go:build verif

package sgip

func init() { vRegister("VH_C03_headers", VH_C03_headers) }

func VH_C03_headers() {
	n := vParam("n")
	data := vBytes("in", n)
	h, err := PeekHeader(data)
	vAssert("C03.sgip.PeekHeader.short-is-error", (err != nil) == (n < 20))
	if err == nil {
		vAssert("C03.sgip.PeekHeader.fields", vAnd(vAnd(h.TotalLength == vBE32(data), uint32(h.CommandID) == vBE32(data[4:])), vAnd(h.Sequence[0] == vBE32(data[8:]), vAnd(h.Sequence[1] == vBE32(data[12:]), h.Sequence[2] == vBE32(data[16:])))))
	}
	vObserveErr("err", err)
	vReach("end")
}
