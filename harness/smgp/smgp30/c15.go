//go:build verif

package smgp30

import (
	"bytes"
	"crypto/md5"
	"fmt"

	"github.com/hujm2023/go-sms-protocol/smgp"
)

func init() {
	vRegister("VH_C15_login", VH_C15_login)
	vRegister("VH_C15_newlogin", VH_C15_newlogin)
	vRegister("VH_C15_login_resp", VH_C15_login_resp)
}

// SMGP 3.0 section 7.3.1: AuthenticatorClient = MD5(ClientID + 7 zero octets + shared secret + timestamp(10 digits))
func refAuthClient(id, secret string, ts uint32) []byte {
	d := md5.Sum(vCat([]byte(id), make([]byte, 7), []byte(secret), []byte(fmt.Sprintf("%010d", ts))))
	return d[:]
}

func seekTS(id, secret string, ts uint32, wantNUL bool) uint32 {
	for i := 0; i < 4096; i++ {
		d := refAuthClient(id, secret, ts)
		if (bytes.IndexByte(d, 0) >= 0) == wantNUL {
			return ts
		}
		ts = (ts + 1) % 1231235960
	}
	return ts
}

func VH_C15_login() {
	id := vStringUpTo("acc", 8)
	secret := c15Secret()
	vAssume(vNoNUL(id))
	vAssume(vNoNUL(secret))
	ts := vU32("ts")
	vAssume(ts <= 1231235959)
	wantNUL := vBool("digest-has-nul")
	if !vSymbolic() {
		ts = seekTS(id, secret, ts, wantNUL)
	}
	auth, err := genAuthenticatorClient(id, secret, ts)
	vAssert("C15.smgp30.login.generator-ok", err == nil)
	vAssume(wantNUL == vAnyZero(auth))
	vAssert("C15.smgp30.login.digest-is-md5-of-spec-concatenation", vEqBytes(auth, refAuthClient(id, secret, ts)))
	p := &Login{Header: smgp.NewHeader(0, smgp.CommandLogin, vU32("seq")), ClientID: id, AuthenticatorClient: string(auth), LoginMode: vU8("mode"), Timestamp: ts, Version: 0x30}
	b, eerr := p.IEncode()
	vObserve("bytes", b)
	vAssert("C15.smgp30.login.encodes", eerr == nil)
	q := new(Login)
	vAssert("C15.smgp30.login.decodes", q.IDecode(b) == nil)
	vKnown("KF-authenticator-cut-at-nul", "C15.smgp30.login.peer-verifies", vAnyZero(auth))
	again, _ := genAuthenticatorClient(q.ClientID, secret, q.Timestamp)
	vAssert("C15.smgp30.login.peer-verifies", q.AuthenticatorClient == string(again))
	vReach("end")
}

func VH_C15_newlogin() {
	id := vStringUpTo("acc", 8)
	secret := c15Secret()
	vAssume(vNoNUL(id))
	vAssume(vNoNUL(secret))
	p := NewLogin(id, secret, vU32("seq"))
	vAssert("C15.smgp30.newlogin.account", p.ClientID == id)
	vAssert("C15.smgp30.newlogin.digest-matches-its-timestamp", p.AuthenticatorClient == string(refAuthClient(id, secret, p.Timestamp)))
	vReach("end")
}

// The login response carries AuthenticatorServer = MD5(Status + AuthenticatorClient + shared secret);
// the library only transports it: it must survive encode + decode for every digest value.
func VH_C15_login_resp() {
	server := vString("server-digest", 16)
	r := &LoginResp{Header: smgp.NewHeader(0, smgp.CommandLoginResp, vU32("seq")), Status: vU32("status"), AuthenticatorServer: server, ServerVersion: 0x30}
	b, err := r.IEncode()
	vObserve("bytes", b)
	vAssert("C15.smgp30.resp.encodes", err == nil)
	q := new(LoginResp)
	vAssert("C15.smgp30.resp.decodes", q.IDecode(b) == nil)
	vKnown("KF-authenticator-cut-at-nul", "C15.smgp30.resp.client-verifies", vAnyZero([]byte(server)))
	vAssert("C15.smgp30.resp.client-verifies", q.AuthenticatorServer == server)
	vReach("end")
}

// the shared secret: every string of 0..maxsecret octets, or (fixsecret > 0) every string of
// exactly that many octets
func c15Secret() string {
	if n := vParam("fixsecret"); n > 0 {
		return vString("secret", n)
	}
	return vStringUpTo("secret", vParam("maxsecret"))
}
