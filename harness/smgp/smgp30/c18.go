//go:build verif

package smgp30

func init() {
	vRegister("VH_C18_smgp_receipt", VH_C18_smgp_receipt)
	vRegister("VH_C03_smgp_receipt_raw", VH_C03_smgp_receipt_raw)
}

var c18Keys = [8]string{"id", "sub", "dlvrd", "submit date", "done date", "stat", "err", "text"}
var c18Alt = [8]string{"id", "Sub", "Dlvrd", "Submit_Date", "Done_Date", "Stat", "Err", "Text"}
var c18Width = [8]int{10, 3, 3, 10, 10, 7, 3, 20}

// SMGP receipt: ordered selection of keys (param sel, base-9 digits), each in its primary
// or backup spelling (param alt: bit k set = backup spelling of key k); the id is ten
// arbitrary octets, the other values symbolic space-free colon-free strings of length vl
// (also longer than the field width: the value is then cut to the width).
func VH_C18_smgp_receipt() {
	sel, vl, alt := vParam("sel"), vParam("vl"), vParam("alt")
	var order []int
	for s := sel; s > 0; s /= 9 {
		order = append(order, s%9-1)
	}
	vals := map[int]string{}
	text := ""
	for i, k := range order {
		var v string
		if k == 0 {
			v = vString("id", 10)
			for j := 0; j < 10; j++ {
				vAssume(v[j] != ':')
			}
		} else {
			v = vString(vIdx("v", k), vl)
						for j := 0; j < len(v); j++ {
				vAssume(vAnd(v[j] != ':', v[j] != ' ')) // any octet (also NUL, invalid UTF-8) but space and colon
			}
		}
		vals[k] = v
		if i > 0 {
			text += " "
		}
		name := c18Keys[k]
		if alt>>uint(k)&1 == 1 {
			name = c18Alt[k]
		}
		text += name + ":" + v
	}
	d, err := ExtractDeliveryReceipt(text)
	vObserveErr("err", err)
	got := [8]string{d.ID, d.Sub, d.Dlvrd, d.SubDate, d.DoneDate, d.Stat, d.Err, d.Text}
	vObserve("id", d.ID)
	vObserve("sub", d.Sub)
	vAssert("C18.smgp.no-error", err == nil)
	for k := 0; k < 8; k++ {
		want, present := vals[k]
		switch {
		case !present:
			vAssert("C18.smgp.absent-key-empty", got[k] == "")
		case k == 0:
			vAssert("C18.smgp.id-is-hex-of-ten-octets", got[0] == vHex([]byte(want)))
		default:
			if len(want) > c18Width[k] {
				want = want[:c18Width[k]]
			}
			vAssert("C18.smgp.present-key-value-cut-to-width", got[k] == want)
		}
	}
	vReach("end")
}

func VH_C03_smgp_receipt_raw() {
	n := vParam("n")
	s := vString("s", n)
	vBudget(3000000, true)
	d, err := ExtractDeliveryReceipt(s)
	vObserve("id", d.ID)
	vObserveErr("err", err)
	vReach("end")
}
