//go:build verif

package smgp

import (
	"github.com/hujm2023/go-sms-protocol/packet"
)

func init() {
	vRegister("VH_C16_opt_set", VH_C16_opt_set)
	vRegister("VH_C16_opt_agree", VH_C16_opt_agree)
	vRegister("VH_C16_opt_nofab", VH_C16_opt_nofab)
	vRegister("VH_C16_opt_big", VH_C16_opt_big)
	vRegister("VH_C16_opt_misc", VH_C16_opt_misc)
}

func optTriplet(tag uint16, val []byte) []byte {
	return vCat(vBE(uint64(tag), 2), vBE(uint64(len(val)), 2), val)
}

func VH_C16_opt_set() {
	k, vlen := vParam("k"), vParam("vlen")
	vMapOrderAll(true)
	set := Options{}
	tags := make([]uint16, k)
	vals := make([][]byte, k)
	for i := 0; i < k; i++ {
		tags[i] = vU16(vIdx("tag", i))
		for j := 0; j < i; j++ {
			vAssume(tags[j] != tags[i])
		}
		vals[i] = vBytes(vIdx("val", i), vlen)
		set.Add(NewOption(Tag(tags[i]), vals[i]))
	}
	vAssert("C16.opt.add-takes-effect", len(set) == k)
	b := set.Serialize()
	vObserve("len", len(b))
	vAssert("C16.opt.serialised-size", vAnd(len(b) == k*(4+vlen), set.Len() == len(b)))
	got, err := ParseOptions(b)
	got2 := ReadOptions(packet.NewPacketReader(b))
	vAssert("C16.opt.ParseOptions.no-error", err == nil)
	vAssert("C16.opt.ParseOptions.count", len(got) == k)
	vAssert("C16.opt.ReadOptions.count", len(got2) == k)
	for i := 0; i < k; i++ {
		t, ok := got[Tag(tags[i])]
		vAssert("C16.opt.ParseOptions.member", vAnd(ok, vAnd(vEqBytes(t.Value(), vals[i]), t.Len() == vlen)))
		t2, ok2 := got2[Tag(tags[i])]
		vAssert("C16.opt.ReadOptions.member", vAnd(ok2, vAnd(vEqBytes(t2.Value(), vals[i]), t2.Len() == vlen)))
	}
	vReach("end")
}

func VH_C16_opt_agree() {
	k, vlen := vParam("k"), vParam("vlen")
	var b []byte
	for i := 0; i < k; i++ {
		b = append(b, optTriplet(vU16(vIdx("tag", i)), vBytes(vIdx("val", i), vlen))...)
	}
	got1, err := ParseOptions(b)
	got2 := ReadOptions(packet.NewPacketReader(b))
	vObserve("n1", len(got1))
	vAssert("C16.opt.agree.no-error", err == nil)
	vAssert("C16.opt.agree.count", len(got1) == len(got2))
	for tag, t := range got1 {
		u, ok := got2[tag]
		vAssert("C16.opt.agree.member", vAnd(ok, vEqBytes(t.Bytes(), u.Bytes())))
	}
	vReach("end")
}

func VH_C16_opt_nofab() {
	n := vParam("n")
	data := vBytes("in", n)
	want := map[Tag][]byte{}
	off := 0
	for off+4 <= n {
		tag := uint16(data[off])<<8 | uint16(data[off+1])
		ls := int(uint16(data[off+2])<<8 | uint16(data[off+3]))
		if ls > n-off-4 {
			break
		}
		l := vConcretize(ls)
		want[Tag(tag)] = data[off+4 : off+4+l]
		off += 4 + l
	}
	vBudget(600000, true)
	got1, _ := ParseOptions(data)
	got2 := ReadOptions(packet.NewPacketReader(data))
	vObserve("n1", len(got1))
	for tag, t := range got1 {
		w, ok := want[tag]
		vAssert("C16.opt.nofab.ParseOptions", vAnd(ok, vAnd(vEqBytes(t.Value(), w), t.Len() == len(w))))
	}
	for tag, t := range got2 {
		w, ok := want[tag]
		vAssert("C16.opt.nofab.ReadOptions", vAnd(ok, vAnd(vEqBytes(t.Value(), w), t.Len() == len(w))))
	}
	vReach("end")
}

func VH_C16_opt_big() {
	n := vParam("n")
	tag := vU16("tag")
	val := make([]byte, n)
	o := NewOption(Tag(tag), val)
	b := o.Bytes()
	vObserve("len", len(b))
	vAssert("C16.opt.big.has-header", len(b) >= 4)
	if len(b) >= 4 {
		declared := int(b[2])<<8 | int(b[3])
		vAssert("C16.opt.big.declared-length-is-emitted-length", declared == len(b)-4)
		vAssert("C16.opt.big.Len-agrees", o.Len() == declared)
	}
	if n <= 65535 {
		vAssert("C16.opt.big.representable-value-is-kept", len(b) == n+4)
	}
	vReach("end")
}

// Typed accessor on short values; adding to an empty (nil) container.
func VH_C16_opt_misc() {
	tag := vU16("tag")
	v := vBytes("v", 1)
	if vParam("part") == 0 {
		// TP_udhi tolerates a value shorter than the one octet it expects
		o2 := Options{}
		o2.Add(NewOption(TAG_TP_udhi, []byte{}))
		u := o2.TP_udhi()
		vAssert("C16.opt.TP_udhi.empty-value", u == 0)
		o3 := Options{}
		o3.Add(NewOption(TAG_TP_udhi, v))
		vAssert("C16.opt.TP_udhi.value", o3.TP_udhi() == v[0])
		vAssert("C16.opt.TP_udhi.absent", Options{}.TP_udhi() == 0)
	} else {
		var o Options
		vKnown("KF-C16-options-add-on-nil-map-is-lost", "C16.opt.add-to-nil-container-takes-effect", true)
		o.Add(NewOption(Tag(tag), v))
		_, present := o[Tag(tag)]
		vAssert("C16.opt.add-to-nil-container-takes-effect", present)
	}
	vReach("end")
}
