//go:build verif

package cmpp20

import (
	"bytes"
	"crypto/md5"
	"fmt"

	"github.com/hujm2023/go-sms-protocol/cmpp"
)

func init() {
	vRegister("VH_C15_connect", VH_C15_connect)
	vRegister("VH_C15_connect_resp", VH_C15_connect_resp)
	vRegister("VH_C15_newconnect", VH_C15_newconnect)
}

// reference digest per CMPP 2.0 section 7.4.1.1: MD5(Source_Addr + 9 zero octets + shared secret + timestamp(10 digits))
func refAuthSource(acc, secret string, ts uint32) []byte {
	d := md5.Sum(vCat([]byte(acc), make([]byte, 9), []byte(secret), []byte(fmt.Sprintf("%010d", ts))))
	return d[:]
}

// natively (replay): move to a nearby timestamp whose real MD5 digest is in the class the model chose
func seekTS(acc, secret string, ts uint32, wantNUL bool) uint32 {
	for i := 0; i < 4096; i++ {
		d := refAuthSource(acc, secret, ts)
		if (bytes.IndexByte(d, 0) >= 0) == wantNUL {
			return ts
		}
		ts = (ts + 1) % 1231235960
	}
	return ts
}

func credentials() (acc, secret string, ts uint32) {
	acc = vStringUpTo("acc", 6)
	secret = c15Secret()
	vAssume(vNoNUL(acc))
	vAssume(vNoNUL(secret))
	ts = vU32("ts")
	vAssume(ts <= 1231235959)
	wantNUL := vBool("digest-has-nul")
	if !vSymbolic() {
		ts = seekTS(acc, secret, ts, wantNUL)
	}
	return
}

// The connect request: authenticator per specification, and verifiable by the peer after transport.
func VH_C15_connect() {
	acc, secret, ts := credentials()
	auth := cmpp.GenConnectAuth(acc, secret, cmpp.TimeStamp2Str(ts))
	vAssume(vBool("digest-has-nul") == vAnyZero(auth))
	vAssert("C15.cmpp20.connect.digest-is-md5-of-spec-concatenation", vEqBytes(auth, refAuthSource(acc, secret, ts)))
	p := &PduConnect{Header: cmpp.NewHeader(0, cmpp.CommandConnect, vU32("seq")), SourceAddr: acc, AuthenticatorSource: string(auth), Version: cmpp.Version20, Timestamp: ts}
	b, err := p.IEncode()
	vObserve("bytes", b)
	vAssert("C15.cmpp20.connect.encodes", err == nil)
	q := new(PduConnect)
	vAssert("C15.cmpp20.connect.decodes", q.IDecode(b) == nil)
	// the gateway recomputes from its copy of the credentials and the received account/timestamp
	vKnown("KF-authenticator-cut-at-nul", "C15.cmpp20.connect.peer-verifies", vAnyZero(auth))
	recomputed := cmpp.GenConnectAuth(q.SourceAddr, secret, cmpp.TimeStamp2Str(q.Timestamp))
	vAssert("C15.cmpp20.connect.peer-verifies", q.AuthenticatorSource == string(recomputed))
	vReach("end")
}

// The connect response: AuthenticatorISMG = MD5(Status + AuthenticatorSource + shared secret).
func VH_C15_connect_resp() {
	acc, secret, ts := credentials()
	reqAuth := cmpp.GenConnectAuth(acc, secret, cmpp.TimeStamp2Str(ts))
	vAssume(vBool("digest-has-nul") == vAnyZero(reqAuth))
	status := vU8("status")
	ismg := cmpp.GenConnectRespAuthISMG([]byte{status}, string(reqAuth), secret)
	ref := md5.Sum(vCat([]byte{status}, reqAuth, []byte(secret)))
	vAssert("C15.cmpp20.resp.digest-is-md5-of-spec-concatenation", vEqBytes(ismg, ref[:]))
	r := &PduConnectResp{Header: cmpp.NewHeader(0, cmpp.CommandConnectResp, vU32("seq")), Status: status, AuthenticatorISMG: string(ismg), Version: cmpp.Version20}
	b, err := r.IEncode()
	vObserve("bytes", b)
	vAssert("C15.cmpp20.resp.encodes", err == nil)
	q := new(PduConnectResp)
	vAssert("C15.cmpp20.resp.decodes", q.IDecode(b) == nil)
	vKnown("KF-authenticator-cut-at-nul", "C15.cmpp20.resp.client-verifies", vAnyZero(ismg))
	again := cmpp.GenConnectRespAuthISMG([]byte{q.Status}, string(reqAuth), secret)
	vAssert("C15.cmpp20.resp.client-verifies", q.AuthenticatorISMG == string(again))
	vReach("end")
}

// The constructor: builds the authenticator from the clock's timestamp.
func VH_C15_newconnect() {
	acc := vStringUpTo("acc", 6)
	secret := c15Secret()
	vAssume(vNoNUL(acc))
	vAssume(vNoNUL(secret))
	p := NewConnect(acc, secret, vU32("seq"))
	vAssert("C15.cmpp20.newconnect.account", p.SourceAddr == acc)
	vAssert("C15.cmpp20.newconnect.digest-matches-its-timestamp", p.AuthenticatorSource == string(refAuthSource(acc, secret, p.Timestamp)))
	vReach("end")
}

// the shared secret: every string of 0..maxsecret octets, or (fixsecret > 0) every string of
// exactly that many octets
func c15Secret() string {
	if n := vParam("fixsecret"); n > 0 {
		return vString("secret", n)
	}
	return vStringUpTo("secret", vParam("maxsecret"))
}
