//go:build verif

package cmpp

func init() {
	vRegister("VH_C05_utf8_to_ucs2", VH_C05_utf8_to_ucs2)
}

// The three UTF-8 -> UCS-2 helpers agree (and produce big-endian UTF-16).
func VH_C05_utf8_to_ucs2() {
	r := rune(vU32("r"))
	vAssume(r >= 0 && r <= 0x10FFFF)
	vAssume(vNot(vAnd(r >= 0xD800, r <= 0xDFFF)))
	s := "a" + string(r)
	a, err := Utf8ToUcs2(s)
	b := Utf8ToUcs2Back(s)
	c := Utf8ToUcs2Pooled(s)
	vObserve("a", a)
	vAssert("C05.ucs2-helpers.no-error", err == nil)
	vAssert("C05.ucs2-helpers.agree-1-2", a == b)
	vAssert("C05.ucs2-helpers.agree-2-3", b == c)
	if r < 0x10000 {
		vAssert("C05.ucs2-helpers.bmp-value", vEqBytes([]byte(b), []byte{0, 'a', byte(r >> 8), byte(r)}))
	}
	vReach("end")
}
