//go:build verif

package cmpp

func init() { vRegister("VH_C03_headers", VH_C03_headers) }

// header peekers on arbitrary bytes: value or error, never a panic; short input is an error
func VH_C03_headers() {
	n := vParam("n")
	data := vBytes("in", n)
	h, err := PeekHeader(data)
	vAssert("C03.cmpp.PeekHeader.short-is-error", (err != nil) == (n < 12))
	if err == nil {
		vAssert("C03.cmpp.PeekHeader.fields", vAnd(h.TotalLength == vBE32(data), vAnd(uint32(h.CommandID) == vBE32(data[4:]), h.SequenceID == vBE32(data[8:]))))
	}
	h2, err2 := NewHeaderFromBytes(data)
	vAssert("C03.cmpp.NewHeaderFromBytes.short-is-error", (err2 != nil) == (n < 12))
	if err2 == nil {
		vAssert("C03.cmpp.NewHeaderFromBytes.fields", vAnd(h2.TotalLength == h.TotalLength, vAnd(h2.CommandID == h.CommandID, h2.SequenceID == h.SequenceID)))
	}
	vObserveErr("err", err)
	vReach("end")
}
