//go:build verif

package cmpp

func init() {
	vRegister("VH_C17_compose", VH_C17_compose)
	vRegister("VH_C17_splitcombine", VH_C17_splitcombine)
	vRegister("VH_C17_string", VH_C17_string)
}

// C17 (1): in-range fields land at the bit positions the CMPP spec assigns, and split inverts combine.
func VH_C17_compose() {
	month, day, hour := vU64("month"), vU64("day"), vU64("hour")
	minute, second := vU64("minute"), vU64("second")
	gate, seq := vU64("gate"), vU64("seq")
	vAssume(month <= 15)
	vAssume(day <= 31)
	vAssume(hour <= 31)
	vAssume(minute <= 63)
	vAssume(second <= 63)
	vAssume(gate <= 1<<22-1)
	vAssume(seq <= 65535)
	id := CombineMsgID(month, day, hour, minute, second, gate, seq)
	vObserve("id", id)
	// CMPP 2.0/3.0 spec: bit64..61 month, 60..56 day, 55..51 hour, 50..45 minute, 44..39 second, 38..17 gateway, 16..1 sequence
	want := month<<60 | day<<55 | hour<<50 | minute<<44 | second<<38 | gate<<16 | seq
	vAssert("C17.compose.layout", id == want)
	m2, d2, h2, mi2, s2, g2, q2 := SplitMsgID(id)
	vAssert("C17.split.month", m2 == month)
	vAssert("C17.split.day", d2 == day)
	vAssert("C17.split.hour", h2 == hour)
	vAssert("C17.split.minute", mi2 == minute)
	vAssert("C17.split.second", s2 == second)
	vAssert("C17.split.gate", g2 == gate)
	vAssert("C17.split.seq", q2 == seq)
	vReach("end")
}

// C17 (2): split then combine is the identity on all 2^64 ids.
func VH_C17_splitcombine() {
	id := vU64("id")
	m, d, h, mi, s, g, q := SplitMsgID(id)
	vObserve("month", m)
	vObserve("gate", g)
	back := CombineMsgID(m, d, h, mi, s, g, q)
	vAssert("C17.splitcombine.identity", back == id)
	vAssert("C17.split.ranges", vAnd(vAnd(m <= 15, d <= 31), vAnd(vAnd(h <= 31, mi <= 63), vAnd(s <= 63, vAnd(g <= 1<<22-1, q <= 65535)))))
	vReach("end")
}

// C17 (3): the decimal string form of a non-zero id parses back to the same id. (Only that is
// asserted: the width and layout of the string are the mechanism, not the property.)
func VH_C17_string() {
	id := vU64("id")
	s := MsgID2String(id)
	vObserve("s", s)
	if id == 0 {
		vReach("end")
		return
	}
	back := MsgIDString2Uint64(s)
	vObserve("back", back)
	vAssert("C17.string.parses-back-to-the-same-id", back == id)
	vReach("end")
}
