//go:build verif

package protocol

import (
	"context"
	"errors"

	"github.com/hujm2023/go-sms-protocol/datacoding"
)

func init() {
	vRegister("VH_C05_content_decoders", VH_C05_content_decoders)
	vRegister("VH_C05_unsupported", VH_C05_unsupported)
	vRegister("VH_C03_content_decode", VH_C03_content_decode)
}

// The protocol-level content decoders invert the corresponding encoders.
//   which: 0 CMPP ASCII(0), 1 CMPP UCS2(8), 2 CMPP UCS2-no-sign(9), 3 SMPP GSM7 unpacked(0), 4 SMPP ASCII(1), 5 SMPP Latin1(3), 6 SMPP UCS2(8)
func VH_C05_content_decoders() {
	which := vParam("which")
	r := rune(vU32("r"))
	vAssume(r >= 0 && r <= 0xFFFF)
	vAssume(vNot(vAnd(r >= 0xD800, r <= 0xDFFF)))
	s := "a" + string(r)
	ctx := context.Background()
	var enc []byte
	var err error
	var got string
	var derr error
	switch which {
	case 0:
		enc, err = datacoding.GetCMPPCodec(datacoding.CMPP_CODING_ASCII, s).Encode()
	case 1:
		enc, err = datacoding.GetCMPPCodec(datacoding.CMPP_CODING_UCS2, s).Encode()
	case 2:
		enc, err = datacoding.GetCMPPCodec(datacoding.CMPP_CODING_UCS2_NO_SIGN, s).Encode()
	case 3:
		enc, err = datacoding.GetSMPPCodec(datacoding.SMPP_CODING_GSM7_UNPACKED, s).Encode()
	case 4:
		enc, err = datacoding.GetSMPPCodec(datacoding.SMPP_CODING_ASCII, s).Encode()
	case 5:
		enc, err = datacoding.GetSMPPCodec(datacoding.SMPP_CODING_Latin1, s).Encode()
	case 6:
		enc, err = datacoding.GetSMPPCodec(datacoding.SMPP_CODING_UCS2, s).Encode()
	}
	vObserveErr("err", err)
	if err != nil {
		vReach("end")
		return
	}
	switch which {
	case 0:
		got, derr = DecodeCMPPCContent(ctx, string(enc), 0)
	case 1:
		got, derr = DecodeCMPPCContent(ctx, string(enc), 8)
	case 2:
		got, derr = DecodeCMPPCContent(ctx, string(enc), 9)
	case 3:
		got, derr = DecodeSMPPCContent(ctx, string(enc), 0)
	case 4:
		got, derr = DecodeSMPPCContent(ctx, string(enc), 1)
	case 5:
		got, derr = DecodeSMPPCContent(ctx, string(enc), 3)
	case 6:
		got, derr = DecodeSMPPCContent(ctx, string(enc), 8)
	}
	vObserve("got", got)
	vAssert("C05.content.decode-succeeds", derr == nil)
	vAssert("C05.content.inverts-encoder", got == s)
	vReach("end")
}

// Data-coding numbers the library does not support are refused.
func VH_C05_unsupported() {
	ctx := context.Background()
	src := vString("src", 2)
	if vParam("smpp") == 1 {
		c := vInt("coding")
		vAssume(vNot(vOr(vOr(c == 0, c == 1), vOr(c == 3, c == 8))))
		got, err := DecodeSMPPCContent(ctx, src, c)
		vAssert("C05.unsupported.smpp-refused", vAnd(err != nil, errors.Is(err, datacoding.ErrUnsupportedDataCoding)))
		vAssert("C05.unsupported.smpp-content-untouched", got == src)
	} else {
		c := vU8("coding")
		vAssume(vNot(vOr(vOr(c == 0, c == 8), vOr(c == 9, c == 15))))
		got, err := DecodeCMPPCContent(ctx, src, c)
		vAssert("C05.unsupported.cmpp-refused", vAnd(err != nil, errors.Is(err, datacoding.ErrUnsupportedDataCoding)))
		vAssert("C05.unsupported.cmpp-content-untouched", got == src)
	}
	vReach("end")
}

// C03: the protocol-level content decoders on arbitrary source octets and arbitrary coding
// numbers (GBK excluded: x/text's GB18030 tables are not encoded): value or error, no panic.
func VH_C03_content_decode() {
	n := vParam("n")
	src := vString("src", n)
	ctx := context.Background()
	vBudget(3000000, true)
	if vParam("smpp") == 1 {
		c := vInt("coding")
		_, err := DecodeSMPPCContent(ctx, src, c)
		vObserveErr("err", err)
	} else {
		c := vU8("coding")
		vAssume(c != 15)
		_, err := DecodeCMPPCContent(ctx, src, c)
		vObserveErr("err", err)
	}
	vReach("end")
}
