//go:build verif

package protocol

import (
	"context"

	"github.com/hujm2023/go-sms-protocol/datacoding"
	"github.com/hujm2023/go-sms-protocol/datacoding/gsm7encoding"
)

func init() {
	vRegister("VH_C06_packed", VH_C06_packed)
	vRegister("VH_C06_smpp_ascii", VH_C06_smpp_ascii)
	vRegister("VH_C06_ucs2", VH_C06_ucs2)
	vRegister("VH_C06_fallback", VH_C06_fallback)
	vRegister("VH_C06_fallback_long", VH_C06_fallback_long)
	vRegister("VH_C14_generic", VH_C14_generic)
	vRegister("VH_C14_entry_ucs2", VH_C14_entry_ucs2)
}

// natively: a text whose GSM 7-bit encoding is exactly the given septets (engine: contract stub)
func vGSM7Text(septets []byte) string {
	b, err := gsm7encoding.Decode(septets)
	if err != nil {
		panic(vAssumeFailed{})
	}
	return string(b)
}

var gsmExt = [10]byte{0x0A, 0x14, 0x28, 0x29, 0x2F, 0x3C, 0x3D, 0x3E, 0x40, 0x65}

// validSeptets: the stream is in the output language of gsm7encoding.Encode - septets < 0x80,
// every ESC followed by an extension code, no trailing ESC. Escapes may only start at the
// positions >= escFrom (keeps the number of escape patterns, hence paths, bounded) .
func assumeValidSeptets(s []byte, escFrom int) {
	n := len(s)
	for i := 0; i < n; i++ {
		vAssume(s[i] < 0x80)
		afterEsc := i > 0 && s[i-1] == 0x1B && (i < 2 || s[i-2] != 0x1B || true)
		_ = afterEsc
	}
	// walk the stream as the decoder does
	i := 0
	for i < n {
		if i < escFrom {
			vAssume(s[i] != 0x1B)
			i++
			continue
		}
		if s[i] == 0x1B {
			vAssume(i+1 < n)
			ok := false
			for _, e := range gsmExt {
				ok = vOr(ok, s[i+1] == e)
			}
			vAssume(ok)
			i += 2
		} else {
			i++
		}
	}
}

// reference packing (3GPP TS 23.038 6.1.2.1.1), as in the C08 harness
func refPackSeptets(s []byte) []byte {
	n := len(s)
	out := make([]byte, (7*n+7)/8)
	for i, v := range s {
		for b := 0; b < 7; b++ {
			pos := 7*i + b
			out[pos/8] |= (v >> uint(b) & 1) << uint(pos%8)
		}
	}
	if n%8 == 7 {
		out[len(out)-1] |= 0x0d << 1
	}
	return out
}

// Packed GSM 7-bit: every valid septet stream of length T (escape pairs anywhere in the
// window around the part boundaries).
func VH_C06_packed() {
	T, entry := vParam("T"), vParam("entry")
	stream := vBytes("sp", T)
	// escapes allowed only in the last 3 septets before / first septet after each multiple of 153
	escFrom := 0
	if T > 160 {
		escFrom = T // none by default; windows opened below
	}
	i := 0
	n := len(stream)
	for i < n {
		vAssume(stream[i] < 0x80)
		near := T <= 8 || i < 2 || i >= T-3
		for k := 153; k <= T+1; k += 153 {
			if i >= k-3 && i <= k {
				near = true
			}
		}
		if !near {
			vAssume(stream[i] != 0x1B)
			i++
			continue
		}
		if stream[i] == 0x1B {
			vAssume(i+1 < n)
			ok := false
			for _, e := range gsmExt {
				ok = vOr(ok, stream[i+1] == e)
			}
			vAssume(ok)
			i += 2
		} else {
			i++
		}
	}
	_ = escFrom
	key := vU8("key")
	text := vGSM7Text(stream)
	var parts [][]byte
	var err error
	if entry == 1 {
		var coding datacoding.SMPPDataCoding
		parts, coding, err = EncodeSMPPContentAndSplit(context.Background(), text, datacoding.SMPP_CODING_GSM7_PACKED, key)
		vAssert("C06.packed.coding-kept", vImplies(err == nil, coding == datacoding.SMPP_CODING_GSM7_PACKED))
	} else {
		parts, _, err = encodeAndSplitGSM7Packed(text, key)
	}
	vObserve("nparts", len(parts))
	vObserveErr("err", err)
	if T == 0 && entry == 1 {
		vReach("end")
		return
	}
	vAssert("C06.packed.no-error", err == nil)
	if err != nil {
		vReach("end")
		return
	}
	if T <= 160 {
		vAssert("C06.packed.single-part-no-header", vAnd(len(parts) == 1, vEqBytes(parts[0], refPackSeptets(stream))))
		vAssert("C07.packed.single-fits-140", len(parts[0]) <= 140)
		vReach("end")
		return
	}
	// reference segmentation: fill each part with up to 153 septets; a part never ends in ESC
	var segs [][2]int
	b := 0
	for b < T {
		e := b + 153
		if e >= T {
			e = T
		} else if stream[e-1] == 0x1B {
			e--
		}
		segs = append(segs, [2]int{b, e})
		b = e
	}
	vKnown("KF-C06-packed-splitter-loses-tail-after-escape-shift", "C0?.packed.*", len(segs) > (T+152)/153)
	vAssert("C07.packed.count-minimal", len(parts) == len(segs))
	for idx, p := range parts {
		if idx >= len(segs) {
			break
		}
		vAssert("C07.packed.part-fits-140", vAnd(len(p) > 6, len(p) <= 140))
		if len(p) < 6 {
			continue
		}
		vAssert("C07.packed.header", vAnd(vAnd(p[0] == 0x05, vAnd(p[1] == 0x00, p[2] == 0x03)), vAnd(p[3] == key, vAnd(int(p[4]) == len(segs), int(p[5]) == idx+1))))
		seg := stream[segs[idx][0]:segs[idx][1]]
		vAssert("C07.packed.payload-at-most-153-septets", len(seg) <= 153)
		vAssert("C06.packed.payload-is-the-packed-segment", vEqBytes(p[6:], refPackSeptets(seg)))
		vAssert("C14.packed.part-does-not-end-in-escape", seg[len(seg)-1] != 0x1B)
	}
	vReach("end")
}

// SMPP entry point, ASCII coding.
func VH_C06_smpp_ascii() {
	T, c := vParam("T"), vParam("c")
	txt := vBytes("t", T)
	key := vU8("key")
	per, single := 134, 140
	req := datacoding.SMPP_CODING_ASCII
	text := ""
	switch c {
	case 3: // Latin-1 (Windows-1252): the ASCII range is coded as itself
		req = datacoding.SMPP_CODING_Latin1
	}
	for i := 0; i < T; i++ {
		vAssume(txt[i] < 0x80)
	}
	text = string(txt)
	parts, coding, err := EncodeSMPPContentAndSplit(context.Background(), text, req, key)
	vObserve("nparts", len(parts))
	vObserveErr("err", err)
	if T == 0 {
		vReach("end")
		return
	}
	vAssert("C06.smpp-ascii.no-error", err == nil)
	vAssert("C06.smpp-ascii.coding-kept", coding == req)
	if T <= single {
		vAssert("C06.smpp-ascii.single", vAnd(len(parts) == 1, vEqBytes(parts[0], txt)))
	} else {
		checkParts("C06.smpp-ascii", parts, txt, per, key)
	}
	vReach("end")
}

// UCS-2 through both entry points: every text of T ASCII-range characters (2 octets each).
func VH_C06_ucs2() {
	T, smpp := vParam("T"), vParam("smpp")
	txt := vBytes("t", T)
	want := make([]byte, 0, 2*T)
	for i := 0; i < T; i++ {
		vAssume(txt[i] < 0x80)
		want = append(want, 0, txt[i])
	}
	key := vU8("key")
	var parts [][]byte
	var err error
	if smpp == 1 {
		var coding datacoding.SMPPDataCoding
		parts, coding, err = EncodeSMPPContentAndSplit(context.Background(), string(txt), datacoding.SMPP_CODING_UCS2, key)
		vAssert("C06.ucs2.coding-kept", coding == datacoding.SMPP_CODING_UCS2)
	} else {
		req := datacoding.CMPP_CODING_UCS2
		if smpp == 2 { // the second CMPP number for UCS-2
			req = datacoding.CMPP_CODING_UCS2_NO_SIGN
		}
		var coding datacoding.CMPPDataCoding
		parts, coding, err = EncodeCMPPContentAndSplit(context.Background(), string(txt), req, key)
		vAssert("C06.ucs2.coding-kept", coding == req)
	}
	vObserve("nparts", len(parts))
	vAssert("C06.ucs2.no-error", err == nil)
	if 2*T <= 140 {
		vAssert("C06.ucs2.single", vAnd(len(parts) == 1, vEqBytes(parts[0], want)))
	} else {
		checkParts("C06.ucs2", parts, want, 134, key)
	}
	vReach("end")
}

// Reported coding: the requested one when it can represent the text, UCS-2 otherwise;
// invalid coding numbers also yield UCS-2. Short texts with one symbolic character.
func VH_C06_fallback() {
	r := rune(vU32("r"))
	vAssume(r >= 0x80 && r <= 0xFFFF)
	vAssume(vNot(vAnd(r >= 0xD800, r <= 0xDFFF)))
	text := "a" + string(r)
	key := vU8("key")
	which := vParam("which")
	wantUCS2 := []byte{0, 'a', byte(r >> 8), byte(r)}
	switch which {
	case 0: // ASCII cannot represent r: falls back to UCS-2
		parts, coding, err := EncodeCMPPContentAndSplit(context.Background(), text, datacoding.CMPP_CODING_ASCII, key)
		vAssert("C06.fallback.cmpp-ascii", vAnd(err == nil, vAnd(coding == datacoding.CMPP_CODING_UCS2, vAnd(len(parts) == 1, vEqBytes(parts[0], wantUCS2)))))
	case 1:
		parts, coding, err := EncodeSMPPContentAndSplit(context.Background(), text, datacoding.SMPP_CODING_ASCII, key)
		vAssert("C06.fallback.smpp-ascii", vAnd(err == nil, vAnd(coding == datacoding.SMPP_CODING_UCS2, vAnd(len(parts) == 1, vEqBytes(parts[0], wantUCS2)))))
	case 2: // invalid coding numbers
		c := datacoding.CMPPDataCoding(vInt("coding"))
		vAssume(vNot(vOr(vOr(c == 0, c == 8), vOr(c == 9, c == 15))))
		parts, coding, err := EncodeCMPPContentAndSplit(context.Background(), text, c, key)
		vAssert("C06.fallback.cmpp-invalid-number", vAnd(err == nil, vAnd(vOr(coding == datacoding.CMPP_CODING_UCS2, coding == c), vAnd(len(parts) == 1, vEqBytes(parts[0], wantUCS2)))))
		vAssert("C06.fallback.cmpp-invalid-number-reports-ucs2", coding == datacoding.CMPP_CODING_UCS2)
	case 3:
		c := datacoding.SMPPDataCoding(vInt("coding"))
		vAssume(vNot(vOr(vOr(c == 0, c == 1), vOr(vOr(c == 3, c == 8), c == 99))))
		parts, coding, err := EncodeSMPPContentAndSplit(context.Background(), text, c, key)
		vAssert("C06.fallback.smpp-invalid-number", vAnd(err == nil, vAnd(len(parts) == 1, vEqBytes(parts[0], wantUCS2))))
		vAssert("C06.fallback.smpp-invalid-number-reports-ucs2", coding == datacoding.SMPP_CODING_UCS2)
	}
	vReach("end")
}

// C14, generic splitter: for every well-formed stream of a coding with multi-unit characters
// no part may end inside a character.
//   kind 0: UTF-16BE (UCS-2 coding): a part must not end with a high surrogate
//   kind 1: unpacked GSM 7-bit: a part must not end with ESC
//   kind 2: GB18030: a part must not end after a lead octet (0x81..0xFE) of a 2-octet character
func VH_C14_generic() {
	T, kind := vParam("T"), vParam("kind")
	per := 134
	if kind == 1 {
		per = 153
	}
	data := vBytes("d", T)
	key := vU8("key")
	gbPos := -10
	switch kind {
	case 0:
		// well-formed UTF-16BE: units at even offsets; high surrogate followed by low surrogate
		for i := 0; i+1 < T; i += 2 {
			hi := vAnd(data[i] >= 0xD8, data[i] <= 0xDB)
			lo := vAnd(data[i] >= 0xDC, data[i] <= 0xDF)
			if i+3 < T {
				vAssume(vImplies(hi, vAnd(data[i+2] >= 0xDC, data[i+2] <= 0xDF)))
			} else {
				vAssume(vNot(hi))
			}
			if i == 0 {
				vAssume(vNot(lo))
			} else {
				vAssume(vImplies(lo, vAnd(data[i-2] >= 0xD8, data[i-2] <= 0xDB)))
			}
		}
		vKnown("KF-C14-generic-splitter-cuts-ucs2-surrogate-pair", "C14.generic.ucs2.*", true)
	case 1:
		for i := 0; i < T; i++ {
			vAssume(data[i] < 0x80)
		}
		vAssume(data[T-1] != 0x1B)
		vKnown("KF-C14-generic-splitter-cuts-gsm7-escape-pair", "C14.generic.gsm7-unpacked.*", true)
	case 2:
		// GB18030 stream: ASCII octets and one two-octet character (lead 0x81..0xFE, trail 0x40..0xFE
		// except 0x7F) at a symbolic even/odd position around the first cut
		pos := vInt("pos")
		vAssume(pos >= 130 && pos <= 134)
		pos = vConcretize(pos)
		gbPos = pos
		for i := 0; i < T; i++ {
			switch i {
			case pos:
				vAssume(vAnd(data[i] >= 0x81, data[i] <= 0xFE))
			case pos + 1:
				vAssume(vAnd(vAnd(data[i] >= 0x40, data[i] <= 0xFE), data[i] != 0x7F))
			default:
				vAssume(data[i] < 0x80)
			}
		}
		vKnown("KF-C14-generic-splitter-cuts-gb18030-character", "C14.generic.gb18030.*", pos == 133)
	}
	parts := splitWithUDHI(data, per, key)
	vObserve("nparts", len(parts))
	cut := 0
	for idx := 0; idx+1 < len(parts); idx++ {
		p := parts[idx]
		last := p[len(p)-1]
		cut += len(p) - 6 // stream offset at which this part ends
		switch kind {
		case 0:
			vAssert("C14.generic.ucs2.part-does-not-end-in-high-surrogate", vNot(vAnd(p[len(p)-2] >= 0xD8, p[len(p)-2] <= 0xDB)))
		case 1:
			vAssert("C14.generic.gsm7-unpacked.part-does-not-end-in-escape", last != 0x1B)
		case 2:
			// the only octet >= 0x81 followed by a trail octet is the lead of the two-octet character
			vAssert("C14.generic.gb18030.part-does-not-end-in-lead-octet", cut != gbPos+1)
		}
	}
	vReach("end")
}

// C14 through the CMPP entry point with UCS-2: 66 ASCII characters, one supplementary-plane
// character (symbolic), one more ASCII character - the surrogate pair sits on octets 132..135.
func VH_C14_entry_ucs2() {
	lead := vParam("lead")
	r := rune(vU32("r"))
	vAssume(r >= 0x10000 && r <= 0x10FFFF)
	text := ""
	for i := 0; i < lead; i++ {
		text += "a"
	}
	text += string(r) + "bcdefg"
	key := vU8("key")
	vKnown("KF-C14-generic-splitter-cuts-ucs2-surrogate-pair", "C14.entry.ucs2.*", lead == 66)
	parts, _, err := EncodeCMPPContentAndSplit(context.Background(), text, datacoding.CMPP_CODING_UCS2, key)
	vObserve("nparts", len(parts))
	vAssert("C14.entry.ucs2.no-error", err == nil)
	for idx := 0; idx+1 < len(parts); idx++ {
		p := parts[idx]
		vAssert("C14.entry.ucs2.part-does-not-end-in-high-surrogate", vNot(vAnd(p[len(p)-2] >= 0xD8, p[len(p)-2] <= 0xDB)))
	}
	vReach("end")
}

// Fallback for longer texts: T ASCII letters followed by one character r that the requested
// coding cannot represent (CJK ideograph, symbolic). The result must be the UCS-2 encoding,
// reported as UCS-2, with UCS-2's own single/multi threshold and part capacity.
//   req: 0 SMPP GSM-7 unpacked, 1 SMPP GSM-7 packed, 2 SMPP ASCII, 3 SMPP Latin-1, 4 CMPP ASCII
func VH_C06_fallback_long() {
	req, T := vParam("req"), vParam("T")
	r := rune(vU32("r"))
	vAssume(r >= 0x4E00 && r <= 0x9FFF)
	b := make([]byte, T)
	want := make([]byte, 0, 2*T+2)
	for i := range b {
		b[i] = 'a' + byte(i%26)
		want = append(want, 0, b[i])
	}
	want = append(want, byte(r>>8), byte(r))
	text := string(b) + string(r)
	key := vU8("key")
	ctx := context.Background()
	var parts [][]byte
	var err error
	isUCS2 := false
	switch req {
	case 0:
		var c datacoding.SMPPDataCoding
		parts, c, err = EncodeSMPPContentAndSplit(ctx, text, datacoding.SMPP_CODING_GSM7_UNPACKED, key)
		isUCS2 = c == datacoding.SMPP_CODING_UCS2
	case 1:
		var c datacoding.SMPPDataCoding
		parts, c, err = EncodeSMPPContentAndSplit(ctx, text, datacoding.SMPP_CODING_GSM7_PACKED, key)
		isUCS2 = c == datacoding.SMPP_CODING_UCS2
	case 2:
		var c datacoding.SMPPDataCoding
		parts, c, err = EncodeSMPPContentAndSplit(ctx, text, datacoding.SMPP_CODING_ASCII, key)
		isUCS2 = c == datacoding.SMPP_CODING_UCS2
	case 3:
		var c datacoding.SMPPDataCoding
		parts, c, err = EncodeSMPPContentAndSplit(ctx, text, datacoding.SMPP_CODING_Latin1, key)
		isUCS2 = c == datacoding.SMPP_CODING_UCS2
	case 4:
		var c datacoding.CMPPDataCoding
		parts, c, err = EncodeCMPPContentAndSplit(ctx, text, datacoding.CMPP_CODING_ASCII, key)
		isUCS2 = c == datacoding.CMPP_CODING_UCS2
	}
	vObserve("nparts", len(parts))
	vObserveErr("err", err)
	vAssert("C06.fallback-long.no-error", err == nil)
	vAssert("C06.fallback-long.reports-ucs2", isUCS2)
	if len(want) <= 140 {
		vAssert("C06.fallback-long.single", vAnd(len(parts) == 1, vEqBytes(parts[0], want)))
	} else {
		checkParts("C06.fallback-long", parts, want, 134, key)
	}
	vReach("end")
}
