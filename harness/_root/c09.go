//go:build verif

package protocol

import (
	"context"

	"github.com/hujm2023/go-sms-protocol/datacoding"
)

func init() {
	vRegister("VH_C09_less", VH_C09_less)
	vRegister("VH_C09_build", VH_C09_build)
	vRegister("VH_C09_empty", VH_C09_empty)
}

var cmppCodings = []int{0, 8, 9, 15}
var smppCodings = []int{0, 1, 3, 8, 99}

// documented priority (smaller wins): SMPP UCS2 > GSM7 unpacked > Latin1 > ASCII > GSM7 packed;
// CMPP UCS2-no-sign > UCS2 > GBK > ASCII   (datacoding/codec_smpp.go, codec_cmpp.go doc comments)
func refPriority(smpp bool, c int) int {
	if smpp {
		switch c {
		case 8:
			return 1
		case 0:
			return 2
		case 3:
			return 3
		case 1:
			return 4
		case 99:
			return 5
		}
		return 1000
	}
	switch c {
	case 9:
		return 1
	case 8:
		return 2
	case 15:
		return 3
	case 0:
		return 4
	}
	return 1000
}

func mkCoding(smpp bool, c int) datacoding.ProtocolDataCoding {
	if smpp {
		return datacoding.SMPPDataCoding(c)
	}
	return datacoding.CMPPDataCoding(c)
}

// The comparator is a strict weak order and total on distinct codings: three encoders with
// symbolic part counts and symbolic valid codings.
func VH_C09_less() {
	smpp := vParam("smpp") == 1
	set := cmppCodings
	if smpp {
		set = smppCodings
	}
	encs := make([]*encoder, 3)
	cod := make([]int, 3)
	for i := range encs {
		n := vInt(vIdx("parts", i))
		vAssume(n >= 0 && n <= 300)
		c := vInt(vIdx("coding", i))
		in := false
		for _, v := range set {
			in = vOr(in, c == v)
		}
		vAssume(in)
		c = vConcretize(c)
		cod[i] = c
		encs[i] = &encoder{msgFmt: mkCoding(smpp, c), data: make([][]byte, n), canEncode: true}
	}
	s := encoderOrderBy(byLength, byDataCoding)
	s.encoders = encs
	l := func(i, j int) bool { return s.Less(i, j) }
	vAssert("C09.less.irreflexive", vNot(l(0, 0)))
	vAssert("C09.less.asymmetric", vNot(vAnd(l(0, 1), l(1, 0))))
	vAssert("C09.less.transitive", vImplies(vAnd(l(0, 1), l(1, 2)), l(0, 2)))
	if cod[0] != cod[1] {
		vAssert("C09.less.total-on-distinct-codings", vOr(l(0, 1), l(1, 0)))
	}
	// it is the lexicographic order (parts, documented priority)
	p0, p1 := len(encs[0].data), len(encs[1].data)
	want := vOr(p0 < p1, vAnd(p0 == p1, refPriority(smpp, cod[0]) < refPriority(smpp, cod[1])))
	vAssert("C09.less.is-parts-then-priority", l(0, 1) == want)
	vReach("end")
}

// reference: can coding c represent the content class, and in how many parts
//   class 0: "a" + one symbolic ASCII letter      (everything can encode, 1 part)
//   class 1: 150 x ASCII letter (concrete)        (ASCII/Latin1: 2 parts, GSM7: 1, UCS2: 3)
//   class 2: "a" + U+4E2D (CJK)                   (only UCS2 [and GBK, excluded from lists] can encode)
//   class 3: 170 x ASCII letter (concrete)        (ASCII/Latin1: 2, GSM7 unpacked/packed: 2, UCS2: 3)
func refCan(smpp bool, c int, class int) (bool, int) {
	valid := false
	set := cmppCodings
	if smpp {
		set = smppCodings
	}
	for _, v := range set {
		if v == c {
			valid = true
		}
	}
	if !valid {
		return false, 0
	}
	isUCS2 := c == 8 || (!smpp && c == 9)
	isGSM := smpp && (c == 0 || c == 99)
	switch class {
	case 0:
		return true, 1
	case 1:
		if isUCS2 {
			return true, 3
		}
		if isGSM {
			return true, 1
		}
		return true, 2
	case 2:
		return isUCS2, 1
	case 3:
		if isUCS2 {
			return true, 3
		}
		return true, 2
	}
	return false, 0
}

func classContent(class int) string {
	switch class {
	case 0:
		b := vU8("ch")
		vAssume(vAnd(b >= 'a', b <= 'z'))
		return "a" + string([]byte{b})
	case 1, 3:
		n := 150
		if class == 3 {
			n = 170
		}
		b := make([]byte, n)
		for i := range b {
			b[i] = 'a' + byte(i%26)
		}
		return string(b)
	default:
		return "a中"
	}
}

// Build: candidate list given as base-8 digits of param list (digit d>0 = index d-1 into the
// protocol's valid codings, 7 = an invalid number), origin = param (same encoding, 0 = none).
// Map iteration order and goroutine completion order are explored exhaustively by the engine.
func VH_C09_build() {
	smpp := vParam("smpp") == 1
	list, origin, class := vParam("list"), vParam("origin"), vParam("class")
	vMapOrderAll(true)
	set := cmppCodings
	proto := CMPP
	if smpp {
		set = smppCodings
		proto = SMPP
	}
	dec := func(d int) int {
		if d == 7 {
			return 77
		}
		return set[d-1]
	}
	var cands []datacoding.ProtocolDataCoding
	var nums []int
	for l := list; l > 0; l /= 8 {
		c := dec(l % 8)
		cands = append(cands, mkCoding(smpp, c))
		nums = append(nums, c)
	}
	content := classContent(class)
	key := vU8("key")
	b := NewBatchDataCodingEncoder().Protocol(proto).Content(content, key).DataCodings(cands)
	if origin > 0 {
		oc := dec(origin)
		b = b.OriginDataCoding(mkCoding(smpp, oc))
		// a valid original coding joins the candidates
		if ok, _ := refCan(smpp, oc, 0); ok {
			nums = append(nums, oc)
		}
	}
	parts, coding, err := b.Build(context.Background())
	vObserve("nparts", len(parts))
	vObserveErr("err", err)
	// expected winner: minimum of (parts, priority) over the candidates able to encode
	best, bestParts, bestPrio := -1, 0, 0
	for _, c := range nums {
		can, np := refCan(smpp, c, class)
		if !can {
			continue
		}
		pr := refPriority(smpp, c)
		if best < 0 || np < bestParts || (np == bestParts && pr < bestPrio) {
			best, bestParts, bestPrio = c, np, pr
		}
	}
	if best < 0 {
		// nothing can encode: UCS-2 fallback
		best = 8
		_, bestParts = refCan(smpp, 8, class)
	}
	vAssert("C09.build.no-error", err == nil)
	if err == nil {
		vAssert("C09.build.returns-cheapest-coding", coding != nil && coding.ToInt() == mkCoding(smpp, best).ToInt() && coding.Priority() == mkCoding(smpp, best).Priority())
		vAssert("C09.build.part-count", len(parts) == bestParts)
	}
	vReach("end")
}

// An empty request is an error.
func VH_C09_empty() {
	key := vU8("key")
	_, _, err := NewBatchDataCodingEncoder().Protocol(SMPP).Content("", key).DataCodings([]datacoding.ProtocolDataCoding{datacoding.SMPP_CODING_UCS2}).Build(context.Background())
	vAssert("C09.empty.content", err != nil)
	_, _, err = NewBatchDataCodingEncoder().Protocol(SMPP).Content("a", key).DataCodings(nil).Build(context.Background())
	vAssert("C09.empty.candidates", err != nil)
	vReach("end")
}
