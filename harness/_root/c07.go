//go:build verif

package protocol

import (
	"context"

	"github.com/hujm2023/go-sms-protocol/datacoding"
)

func init() {
	vRegister("VH_C07_parse", VH_C07_parse)
	vRegister("VH_C07_split_generic", VH_C07_split_generic)
	vRegister("VH_C07_split_count", VH_C07_split_count)
	vRegister("VH_C06_cmpp_ascii", VH_C06_cmpp_ascii)
}

// Parsing side: every string of length n.
func VH_C07_parse() {
	n := vParam("n")
	s := vString("s", n)
	ref, total, idx, rest, valid := ParseLongSmsContent(s)
	vObserve("ref", ref)
	vObserve("rest", rest)
	vObserve("valid", valid)
	is6 := n >= 6 && vAnd(s[0] == 0x05, vAnd(s[1] == 0x00, s[2] == 0x03))
	is7 := n >= 7 && vAnd(s[0] == 0x06, vAnd(s[1] == 0x08, s[2] == 0x04))
	vAssert("C07.parse.valid-iff-header", valid == vOr(is6, is7))
	if n >= 6 && is6 {
		vAssert("C07.parse.6.ref", ref == int(s[3]))
		vAssert("C07.parse.6.total", total == int(s[4]))
		vAssert("C07.parse.6.seq", idx == int(s[5]))
		vAssert("C07.parse.6.rest", rest == s[6:])
	} else if n >= 7 && is7 {
		vAssert("C07.parse.7.ref16", ref == int(s[3])<<8|int(s[4]))
		vAssert("C07.parse.7.total", total == int(s[5]))
		vAssert("C07.parse.7.seq", idx == int(s[6]))
		vAssert("C07.parse.7.rest", rest == s[7:])
	} else {
		vAssert("C07.parse.invalid.content-untouched", rest == s)
	}
	vReach("end")
}

// checkParts is the shared oracle of C06/C07 for the generic (octet) splitter:
// parts of a stream `data` cut every `per` octets with reference `key`.
func checkParts(tag string, parts [][]byte, data []byte, per int, key byte) {
	T := len(data)
	want := (T + per - 1) / per
	vAssert(tag+".count-minimal", len(parts) == want)
	off := 0
	for i, p := range parts {
		vAssert(tag+".part-nonempty", len(p) > 6)
		if per == 134 {
			vAssert(tag+".part-fits-140", len(p) <= 140)
		} else {
			vAssert(tag+".part-fits-153-septets", len(p) <= 153+6)
		}
		if len(p) < 6 {
			return
		}
		vAssert(tag+".header.magic", vAnd(p[0] == 0x05, vAnd(p[1] == 0x00, p[2] == 0x03)))
		vAssert(tag+".header.ref", p[3] == key)
		vAssert(tag+".header.total", int(p[4]) == len(parts))
		vAssert(tag+".header.seq", int(p[5]) == i+1)
		payload := p[6:]
		vAssert(tag+".payload-fits", len(payload) <= per)
		if off+len(payload) > T {
			vAssert(tag+".content.no-excess", false)
			return
		}
		vAssert(tag+".content.in-order", vEqBytes(payload, data[off:off+len(payload)]))
		// the parser inverts the header
		ref, total, seq, rest, valid := ParseLongSmsContent(string(p))
		vAssert(tag+".parse-inverts", vAnd(vAnd(valid, ref == int(key)), vAnd(vAnd(total == len(parts), seq == i+1), rest == string(payload))))
		off += len(payload)
	}
	vAssert(tag+".content.complete", off == T)
}

// The generic splitter on every octet stream of length T.
func VH_C07_split_generic() {
	T, per := vParam("T"), vParam("per")
	data := vBytes("d", T)
	key := vU8("key")
	parts := splitWithUDHI(data, per, key)
	vObserve("nparts", len(parts))
	if len(parts) > 0 {
		vObserve("last", parts[len(parts)-1])
	}
	checkParts("C07.split", parts, data, per, key)
	vReach("end")
}

// Part-count arithmetic for very long messages through the entry points (content concrete,
// reference symbolic): up to 255 parts the counters are exact, beyond that the message is refused.
func VH_C07_split_count() {
	T, smpp := vParam("T"), vParam("smpp")
	txt := make([]byte, T)
	for i := range txt {
		txt[i] = 'a' + byte(i%26)
	}
	key := vU8("key")
	var parts [][]byte
	var err error
	if smpp == 1 {
		parts, _, err = EncodeSMPPContentAndSplit(context.Background(), string(txt), datacoding.SMPP_CODING_ASCII, key)
	} else {
		parts, _, err = EncodeCMPPContentAndSplit(context.Background(), string(txt), datacoding.CMPP_CODING_ASCII, key)
	}
	n := (T + 133) / 134
	vObserve("nparts", len(parts))
	vObserveErr("err", err)
	if n > 255 {
		vAssert("C07.count.over-255-refused", vAnd(err != nil, len(parts) == 0))
	} else {
		vAssert("C07.count.parts", vAnd(err == nil, len(parts) == n))
		for i, p := range parts {
			vAssert("C07.count.ref", p[3] == key)
			vAssert("C07.count.total", int(p[4]) == n)
			vAssert("C07.count.seq", int(p[5]) == i+1)
		}
	}
	vReach("end")
}

// CMPP entry point, ASCII coding: every ASCII text of T octets.
func VH_C06_cmpp_ascii() {
	T := vParam("T")
	txt := vBytes("t", T)
	for i := 0; i < T; i++ {
		vAssume(txt[i] < 0x80)
	}
	key := vU8("key")
	parts, coding, err := EncodeCMPPContentAndSplit(context.Background(), string(txt), datacoding.CMPP_CODING_ASCII, key)
	vObserve("nparts", len(parts))
	vObserveErr("err", err)
	vAssert("C06.cmpp-ascii.no-error", err == nil)
	vAssert("C06.cmpp-ascii.coding-kept", coding == datacoding.CMPP_CODING_ASCII)
	if T <= 140 {
		vAssert("C06.cmpp-ascii.single", vAnd(len(parts) == 1, vEqBytes(parts[0], txt)))
	} else {
		checkParts("C06.cmpp-ascii", parts, txt, 134, key)
	}
	vReach("end")
}
