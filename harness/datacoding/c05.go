//go:build verif

package datacoding

func init() {
	vRegister("VH_C05_roundtrip", VH_C05_roundtrip)
	vRegister("VH_C05_ascii_bytes", VH_C05_ascii_bytes)
}

// text with one symbolic scalar value r (param ctx: 0 = r alone, 1 = "a" r "b", 2 = r r2 with a second symbolic rune)
func symText() (string, rune) {
	r := rune(vU32("r"))
	vAssume(r >= 0 && r <= 0x10FFFF)
	vAssume(vNot(vAnd(r >= 0xD800, r <= 0xDFFF)))
	switch vParam("ctx") {
	case 0:
		return string(r), r
	case 1:
		return "a" + string(r) + "b", r
	}
	r2 := rune(vU32("r2"))
	vAssume(r2 >= 0 && r2 <= 0x10FFFF)
	vAssume(vNot(vAnd(r2 >= 0xD800, r2 <= 0xDFFF)))
	return string(r) + string(r2), r
}

func codecOf(which int, s string) Codec {
	switch which {
	case 0:
		return Ascii(s)
	case 1:
		return Latin1(s)
	case 2:
		return UCS2(s)
	case 3:
		return GSM7Unpacked(s)
	case 4:
		return GSM7Packed(s)
	}
	return nil
}

// Encoding either fails or produces bytes that decode back to exactly the same string.
//   which: 0 ASCII, 1 Latin-1 (Windows-1252), 2 UCS-2 (UTF-16BE), 3 GSM-7 unpacked, 4 GSM-7 packed
func VH_C05_roundtrip() {
	which := vParam("which")
	s, r := symText()
	enc, err := codecOf(which, s).Encode()
	vObserveErr("err", err)
	if err != nil {
		// refusal must be justified: the character really is outside the repertoire
		switch which {
		case 0:
			vAssert("C05.ascii.refuses-only-non-ascii", r >= 0x80 || vParam("ctx") == 2)
		case 2:
			vAssert("C05.ucs2.never-refuses-valid-utf8", false)
		}
		vReach("end")
		return
	}
	vObserve("enc", enc)
	if which == 4 && vParam("ctx") != 2 {
		// packed GSM-7 end-of-message carve-out (septet count multiple of 8) cannot arise with < 8 septets
	}
	back, derr := codecOf(which, string(enc)).Decode()
	vAssert("C05.decode-of-encoded-succeeds", derr == nil)
	if derr == nil {
		vAssert("C05.roundtrip-exact", vEqBytes(back, []byte(s)))
	}
	switch which {
	case 0:
		vAssert("C05.ascii.accepts-only-ascii", r < 0x80)
	case 2:
		// BMP characters are one big-endian code unit
		if vParam("ctx") == 0 && r < 0x10000 {
			vAssert("C05.ucs2.bmp-is-one-unit", vAnd(len(enc) == 2, vAnd(enc[0] == byte(r>>8), enc[len(enc)-1] == byte(r))))
		}
	}
	vReach("end")
}

// ASCII codec on arbitrary octet strings (it works on octets, not on runes).
func VH_C05_ascii_bytes() {
	n := vParam("n")
	b := vBytes("b", n)
	enc, err := Ascii(string(b)).Encode()
	all := true
	for i := 0; i < n; i++ {
		all = vAnd(all, b[i] < 0x80)
	}
	vAssert("C05.ascii.bytes.accepts-iff-all-below-0x80", (err == nil) == all)
	if err == nil {
		dec, derr := Ascii(string(enc)).Decode()
		vAssert("C05.ascii.bytes.roundtrip", vAnd(derr == nil, vEqBytes(dec, b)))
	}
	vReach("end")
}
