//go:build verif

package gsm7encoding

import (
	"golang.org/x/text/transform"
)

func init() {
	vRegister("VH_C08_pack", VH_C08_pack)
	vRegister("VH_C08_unpack_raw", VH_C08_unpack_raw)
	vRegister("VH_C08_encode_rune", VH_C08_encode_rune)
	vRegister("VH_C08_decode_pair", VH_C08_decode_pair)
	vRegister("VH_C08_transformers", VH_C08_transformers)
	vRegister("VH_C03_gsm7_decoder", VH_C03_gsm7_decoder)
	vRegister("VH_C08_decoder_septets", VH_C08_decoder_septets)
}

// 3GPP TS 23.038 6.2.1 default alphabet (transcribed independently of the library's tables);
// index = septet value, 0x1B is the escape to the extension table.
var refGSM7 = [128]rune{
	0x0040, 0x00A3, 0x0024, 0x00A5, 0x00E8, 0x00E9, 0x00F9, 0x00EC, 0x00F2, 0x00C7, 0x000A, 0x00D8, 0x00F8, 0x000D, 0x00C5, 0x00E5,
	0x0394, 0x005F, 0x03A6, 0x0393, 0x039B, 0x03A9, 0x03A0, 0x03A8, 0x03A3, 0x0398, 0x039E, -1, 0x00C6, 0x00E6, 0x00DF, 0x00C9,
	0x0020, 0x0021, 0x0022, 0x0023, 0x00A4, 0x0025, 0x0026, 0x0027, 0x0028, 0x0029, 0x002A, 0x002B, 0x002C, 0x002D, 0x002E, 0x002F,
	0x0030, 0x0031, 0x0032, 0x0033, 0x0034, 0x0035, 0x0036, 0x0037, 0x0038, 0x0039, 0x003A, 0x003B, 0x003C, 0x003D, 0x003E, 0x003F,
	0x00A1, 0x0041, 0x0042, 0x0043, 0x0044, 0x0045, 0x0046, 0x0047, 0x0048, 0x0049, 0x004A, 0x004B, 0x004C, 0x004D, 0x004E, 0x004F,
	0x0050, 0x0051, 0x0052, 0x0053, 0x0054, 0x0055, 0x0056, 0x0057, 0x0058, 0x0059, 0x005A, 0x00C4, 0x00D6, 0x00D1, 0x00DC, 0x00A7,
	0x00BF, 0x0061, 0x0062, 0x0063, 0x0064, 0x0065, 0x0066, 0x0067, 0x0068, 0x0069, 0x006A, 0x006B, 0x006C, 0x006D, 0x006E, 0x006F,
	0x0070, 0x0071, 0x0072, 0x0073, 0x0074, 0x0075, 0x0076, 0x0077, 0x0078, 0x0079, 0x007A, 0x00E4, 0x00F6, 0x00F1, 0x00FC, 0x00E0,
}

// TS 23.038 6.2.1.1 extension table: code after ESC -> character.
var refGSM7ExtCode = [10]byte{0x0A, 0x14, 0x28, 0x29, 0x2F, 0x3C, 0x3D, 0x3E, 0x40, 0x65}
var refGSM7ExtRune = [10]rune{0x000C, 0x005E, 0x007B, 0x007D, 0x005C, 0x005B, 0x007E, 0x005D, 0x007C, 0x20AC}

// refPack: septet i occupies bits 7i..7i+6 of the little-endian bit stream; when seven
// spare bits remain (n = 7 mod 8) they hold CR.
func refPack(s []byte) []byte {
	n := len(s)
	out := make([]byte, (7*n+7)/8)
	for i, v := range s {
		for b := 0; b < 7; b++ {
			pos := 7*i + b
			out[pos/8] |= (v >> uint(b) & 1) << uint(pos%8)
		}
	}
	if n%8 == 7 {
		out[len(out)-1] |= 0x0d << 1
	}
	return out
}

// refUnpack reads n septets from the bit stream.
func refUnpack(p []byte, n int) []byte {
	out := make([]byte, n)
	for i := 0; i < n; i++ {
		for b := 0; b < 7; b++ {
			pos := 7*i + b
			out[i] |= (p[pos/8] >> uint(pos%8) & 1) << uint(b)
		}
	}
	return out
}

// Packing: every septet vector of length n.
func VH_C08_pack() {
	n := vParam("n")
	s := vBytes("s", n)
	for i := 0; i < n; i++ {
		vAssume(s[i] < 0x80)
	}
	p := Pack(s)
	vObserve("packed", p)
	want := refPack(s)
	vAssert("C08.pack.len", len(p) == (7*n+7)/8)
	vAssert("C08.pack.bits", vEqBytes(p, want))
	// statement carve-outs (end-of-message ambiguity when the septet count is a multiple of 8)
	if n > 0 && n%8 == 0 {
		vAssume(s[n-1] != 0x0d)
		vAssume(vNot(vAnd(s[n-1] == 0, s[n-2] < 0x40)))
	}
	// known defect: a zero septet that ends a full block whose seventh septet is < 0x40 is dropped in the MIDDLE of a message too
	mid := false
	for k := 0; 8*k+7 < n-1; k++ {
		mid = vOr(mid, vAnd(s[8*k+7] == 0, s[8*k+6] < 0x40))
	}
	_ = mid
	u := Unpack(p)
	vObserve("unpacked", u)
	vAssert("C08.unpack.roundtrip", vEqBytes(u, s))
	vReach("end")
}

// Unpacking arbitrary octets: result agrees with the bit formula for the septets it returns.
func VH_C08_unpack_raw() {
	n := vParam("n")
	p := vBytes("p", n)
	u := Unpack(p)
	vObserve("unpacked", u)
	// number of septets is floor(8n/7), possibly one fewer per the padding rules
	max := 8 * n / 7
	vAssert("C08.unpackraw.len", vAnd(len(u) <= max, len(u)+1+n/7 >= max))
	if n < 7 {
		// no full block: all septets must be exactly the bit-stream septets
		vAssert("C08.unpackraw.bits", vOr(vEqBytes(u, refUnpack(p, max)), vAnd(max%8 == 0 && max > 0, vEqBytes(u, refUnpack(p, max)[:maxInt(max-1, 0)]))))
	}
	vReach("end")
}

func maxInt(a, b int) int {
	if a > b {
		return a
	}
	return b
}

// fork-free table lookups for the oracle
func refEncode(r rune) (code byte, ext bool, ok bool) {
	idx := -1
	for i := 0; i < 128; i++ {
		idx = vIteInt(refGSM7[i] == r, i, idx)
	}
	eidx := -1
	for i := 0; i < 10; i++ {
		eidx = vIteInt(refGSM7ExtRune[i] == r, i, eidx)
	}
	ecode := 0
	for i := 0; i < 10; i++ {
		ecode = vIteInt(eidx == i, int(refGSM7ExtCode[i]), ecode)
	}
	code = byte(vIteInt(idx >= 0, idx, ecode))
	return code, vAnd(idx < 0, eidx >= 0), vOr(idx >= 0, eidx >= 0)
}

// Alphabet, encoding direction: one rune over all 0x110000 code points.
func VH_C08_encode_rune() {
	r := rune(vU32("r"))
	vAssume(r >= 0 && r <= 0x10FFFF)
	vAssume(vNot(vAnd(r >= 0xD800, r <= 0xDFFF)))
	s := string(r)
	out, err := Encode(s)
	vObserve("out", out)
	vObserveErr("err", err)
	code, ext, ok := refEncode(r)
	vAssert("C08.encode.refuses-iff-outside-table", (err == nil) == ok)
	if err == nil {
		if ext {
			vAssert("C08.encode.ext", vAnd(len(out) == 2, vAnd(out[0] == 0x1B, out[len(out)-1] == code)))
		} else {
			vAssert("C08.encode.default", vAnd(len(out) == 1, out[0] == code))
		}
		back, derr := Decode(out)
		vAssert("C08.decode.inverts", vAnd(derr == nil, vEqBytes(back, []byte(s))))
	}
	inv := ValidateGSM7String(s)
	vAssert("C08.validate-string.agrees", (len(inv) == 0) == ok)
	vAssert("C08.isvalid-string.agrees", IsValidGSM7String(s) == ok)
	vReach("end")
}

// Alphabet, decoding direction: all (first, second) septet pairs and all single septets.
func VH_C08_decode_pair() {
	n := vParam("n")
	b := vBytes("b", n)
	out, err := Decode(b)
	vObserve("out", out)
	vObserveErr("err", err)
	inv := ValidateGSM7Buffer(b)
	vAssert("C08.validate-buffer.agrees", (len(inv) == 0) == (err == nil))
	a := b[0]
	isExt := func(c byte) bool {
		e := false
		for i := 0; i < 10; i++ {
			e = vOr(e, refGSM7ExtCode[i] == c)
		}
		return e
	}
	if n == 1 {
		valid := vAnd(a < 0x80, a != 0x1B)
		vAssert("C08.decode1.refuses-iff-outside", (err == nil) == valid)
		if err == nil {
			vAssert("C08.decode1.char", vEqBytes(out, []byte(string(refGSM7[a&0x7f]))))
		}
	} else {
		c := b[1]
		valid := vOr(vAnd(a == 0x1B, isExt(c)), vAnd(vAnd(a < 0x80, a != 0x1B), vAnd(c < 0x80, c != 0x1B)))
		vAssert("C08.decode2.refuses-iff-outside", (err == nil) == valid)
		if err == nil {
			if a == 0x1B {
				er := rune(0)
				for i := 0; i < 10; i++ {
					er = rune(vIteInt(refGSM7ExtCode[i] == c, int(refGSM7ExtRune[i]), int(er)))
				}
				vAssert("C08.decode2.ext", vEqBytes(out, []byte(string(er))))
			} else {
				vAssert("C08.decode2.chars", vEqBytes(out, []byte(string(refGSM7[a&0x7f])+string(refGSM7[c&0x7f]))))
			}
		}
	}
	vReach("end")
}

// The transform.Transformer entry points agree with the function pairs (ASCII-range GSM text).
func VH_C08_transformers() {
	n := vParam("n")
	packed := vParam("packed") == 1
	txt := vBytes("t", n)
	for i := 0; i < n; i++ {
		// ASCII characters of the default table (no extension characters: those fork per character
		// and are covered by VH_C08_encode_rune / VH_C08_pack)
		vAssume(vOr(vAnd(txt[i] >= 0x20, txt[i] <= 0x5a), vAnd(txt[i] >= 0x61, txt[i] <= 0x7a)))
	}
	viaFn, err := Encode(string(txt))
	vAssume(err == nil)
	want := viaFn
	if packed {
		want = Pack(viaFn)
	}
	got, _, terr := transform.Bytes(GSM7(packed).NewEncoder(), txt)
	vObserve("enc", got)
	vAssert("C08.transform.encoder.ok", terr == nil)
	vAssert("C08.transform.encoder.agrees", vEqBytes(got, want))
	// decoder transformer vs Decode(Unpack())
	var wantDec []byte
	var derr error
	if packed {
		mid := false
		for k := 0; 8*k+7 < len(viaFn)-1; k++ {
			mid = vOr(mid, vAnd(viaFn[8*k+7] == 0, viaFn[8*k+6] < 0x40))
		}
		_ = mid
		wantDec, derr = Decode(Unpack(want))
	} else {
		wantDec, derr = Decode(want)
	}
	gotDec, _, tderr := transform.Bytes(GSM7(packed).NewDecoder(), want)
	vObserve("dec", gotDec)
	vAssert("C08.transform.decoder.err-agrees", (tderr == nil) == (derr == nil))
	if derr == nil && tderr == nil {
		vAssert("C08.transform.decoder.agrees", vEqBytes(gotDec, wantDec))
	}
	vReach("end")
}

// C03: the decoding transformer on arbitrary octets: a value or an error, never a panic.
func VH_C03_gsm7_decoder() {
	n := vParam("n")
	packed := vParam("packed") == 1
	data := vBytes("in", n)
	vBudget(3000000, true)
	out, _, err := transform.Bytes(GSM7(packed).NewDecoder(), data)
	vObserveErr("err", err)
	if !packed {
		ref, rerr := Decode(data)
		vAssert("C03.gsm7.decoder.agrees-with-Decode", (err == nil) == (rerr == nil))
		if err == nil && rerr == nil {
			vAssert("C03.gsm7.decoder.same-text", vEqBytes(out, ref))
		}
	}
	vReach("end")
}

// The decoding transformers on packed/unpacked images of every septet vector over the part of
// the alphabet whose characters are single ASCII octets (unpacked) / over the alphabet
// {LF, CR, '1', '?', 'a'} (packed): they agree with Decode.
func VH_C08_decoder_septets() {
	n := vParam("n")
	packed := vParam("packed") == 1
	s := vBytes("s", n)
	for i := 0; i < n; i++ {
		c := s[i]
		// a small branch-relevant alphabet keeps the query tractable: CR (the filler value), LF,
		// '1' (< 0x40), 'a' (>= 0x40), '?' (0x3f), and for the unpacked form the whole ASCII-valued part
		ok := vOr(vOr(c == 0x0A, c == 0x0D), vOr(c == 0x31, vOr(c == 0x61, c == 0x3F)))
		if !packed {
			ok = vOr(ok, vOr(vAnd(c >= 0x20, c <= 0x23), vOr(vAnd(c >= 0x25, c <= 0x3F), vOr(vAnd(c >= 0x41, c <= 0x5A), vAnd(c >= 0x61, c <= 0x7A)))))
		}
		vAssume(ok)
	}
	if packed && n > 0 && n%8 == 0 {
		vAssume(s[n-1] != 0x0d) // end-of-message carve-out of the statement
	}
	want, werr := Decode(s)
	vAssume(werr == nil)
	img := s
	if packed {
		img = Pack(s)
	}
	got, _, err := transform.Bytes(GSM7(packed).NewDecoder(), img)
	vObserve("got", got)
	vAssert("C08.decoder.no-error", err == nil)
	vAssert("C08.decoder.agrees-with-Decode", vEqBytes(got, want))
	vReach("end")
}
