//go:build verif

package smpp

import "time"

func init() {
	vRegister("VH_C19_relative", VH_C19_relative)
	vRegister("VH_C19_absolute", VH_C19_absolute)
	vRegister("VH_C19_relative_fn", VH_C19_relative_fn)
	vRegister("VH_C19_lemma", VH_C19_lemma)
	vRegister("VH_C19_relative_frac", VH_C19_relative_frac)
}

func dig(s string, i int) int { return int(s[i] - '0') }

// natively the duration travels as text through the real time.ParseDuration; in the
// engine ParseDuration is a stub returning the symbolic duration "dur" (or an error)
func durText(d time.Duration, perr bool) string {
	if vSymbolic() || perr {
		return "x"
	}
	return d.String()
}

// the duration under test: (+/-)(dursecs*1e9 + durfrac); the engine's ParseDuration stub
// hands out the same term (sign = job parameter durneg)
func symDur() (d time.Duration, secs int64) {
	s := vU32("dursecs")
	f := vU32("durfrac")
	if vParam("whole") == 1 {
		vAssume(f == 0)
	}
	f %= 1000000000
	d = time.Duration(int64(s)*1000000000 + int64(f))
	if vParam("durneg") == 1 {
		d = -d
	}
	return d, int64(s)
}

func isDig(s string, i int) bool { return vAnd(s[i] >= '0', s[i] <= '9') }

// checkRelative: s is empty (zero seconds) or a 16-character relative SMPP time that denotes
// exactly `secs` seconds.
func checkRelative(tag string, s string, secs int64) {
	if secs == 0 {
		vAssert(tag+".zero-is-empty", s == "")
		return
	}
	vAssert(tag+".length-16", len(s) == 16)
	if len(s) != 16 {
		return
	}
	vAssert(tag+".frame", vAnd(vAnd(s[0] == '0', s[1] == '0'), vAnd(vAnd(s[2] == '0', s[3] == '0'), vAnd(vAnd(s[12] == '0', s[13] == '0'), vAnd(s[14] == '0', s[15] == 'R')))))
	alld := true
	for i := 4; i < 12; i++ {
		alld = vAnd(alld, isDig(s, i))
	}
	vAssert(tag+".digits", alld)
	D := dig(s, 4)*10 + dig(s, 5)
	H := dig(s, 6)*10 + dig(s, 7)
	M := dig(s, 8)*10 + dig(s, 9)
	S := dig(s, 10)*10 + dig(s, 11)
	vAssert(tag+".field-ranges", vAnd(H < 24, vAnd(M < 60, S < 60)))
	// D, H, M, S are the mixed-radix digits of secs (equivalent to D*86400+H*3600+M*60+S == secs
	// together with the ranges above; stated digit-wise because the solver decides each quickly)
	vAssert(tag+".denotes-the-duration.days", int64(D) == secs/86400)
	vAssert(tag+".denotes-the-duration.hours", int64(H) == secs/3600%24)
	vAssert(tag+".denotes-the-duration.minutes", int64(M) == secs/60%60)
	vAssert(tag+".denotes-the-duration.seconds", int64(S) == secs%60)
}

// ToValidatePeriod, relative form: every duration from -1 s to 100 years. The float64
// arithmetic of Duration.Hours/Minutes/Seconds is replaced by its integer contract here
// (vFPContracts) - the contract itself is proved on the real time SSA by VH_C19_lemma.
func VH_C19_relative() {
	vFPContracts(true)
	now := time.Now()
	d, secs := symDur()
	perr := vBool("parse-err")
	s, err := ToValidatePeriod(now, durText(d, perr), true)
	vObserve("s", s)
	vObserveErr("err", err)
	if perr {
		vAssert("C19.relative.unparsable-is-refused", err != nil)
		vReach("end")
		return
	}
	vAssume(secs <= 100*366*86400)
	if d < 0 {
		vAssert("C19.relative.negative-is-refused", err != nil)
		vReach("end")
		return
	}
	vKnown("KF-C19-relative-days-modulo-31", "C19.relative.*", secs >= 31*86400)
	// a duration is either refused or rendered exactly
	if err == nil {
		checkRelative("C19.relative", s, secs)
	} else {
		vAssert("C19.relative.refusal-only-when-not-representable", secs >= 100*86400)
	}
	vReach("end")
}

// The integer contract of the float64 duration accessors, on the real time package SSA
// (floating-point theory): for whole-second durations below 31 days (param whole=1) or every
// nanosecond count below 31 days (whole=0)
//   int(d.Hours()) == d/Hour, int(d.Hours()/24) == d/(24 Hour), int(d.Minutes()) == d/Minute, int(d.Seconds()) == d/Second
func VH_C19_lemma() {
	which := vParam("which")
	secs := int64(vU32("secs"))
	vAssume(secs < int64(vParam("maxdays"))*86400)
	frac := int64(0)
	if vParam("whole") == 0 {
		frac = int64(vU32("frac"))
		vAssume(frac < 1000000000)
	}
	d := time.Duration(secs*1000000000 + frac)
	switch which {
	case 0:
		vAssert("C19.lemma.hours", int64(d.Hours()) == secs/3600)
	case 1:
		vAssert("C19.lemma.days", int64(d.Hours()/24) == secs/86400)
	case 2:
		vAssert("C19.lemma.minutes", int64(d.Minutes()) == secs/60)
	case 3:
		vAssert("C19.lemma.seconds", int64(d.Seconds()) == secs)
	// the remaining clauses of the contract (used when the float is not just truncated):
	// q <= f < q+1, and f >= q+0.5 exactly when the remainder is at least half a unit
	case 4:
		lemmaRange("C19.lemma.seconds", d.Seconds(), secs, 2*frac >= 1000000000)
	case 5:
		lemmaRange("C19.lemma.minutes", d.Minutes(), secs/60, 2*(secs%60*1000000000+frac) >= 60000000000)
	case 6:
		lemmaRange("C19.lemma.hours", d.Hours(), secs/3600, 2*(secs%3600*1000000000+frac) >= 3600000000000)
	}
	vObserve("h", int64(d.Hours()))
	vReach("end")
}

func lemmaRange(tag string, f float64, q int64, half bool) {
	vAssert(tag+".at-least-quotient", f >= float64(q))
	vAssert(tag+".below-next", f < float64(q+1))
	vAssert(tag+".half-iff-remainder-half", (f >= float64(q)+0.5) == half)
}

// The formatter on durations WITH a sub-second rest, on the real float64 code (no contract):
// seconds in a small window [lo, lo+span), every nanosecond fraction.
func VH_C19_relative_frac() {
	lo, span := vParam("lo"), vParam("span")
	off := int64(vU8("off"))
	vAssume(off < int64(span))
	secs := int64(lo) + off
	frac := int64(vU32("frac"))
	vAssume(frac < 1000000000)
	d := time.Duration(secs*1000000000 + frac)
	s := timeToSMPPTimeFormatRelative(d)
	vObserve("s", s)
	checkRelative("C19.relative-frac", s, secs)
	vReach("end")
}

// The formatter itself under the contract, every whole-second duration (whole=1) or every
// nanosecond count (whole=0).
func VH_C19_relative_fn() {
	vFPContracts(true)
	secs := int64(vU32("secs"))
	vAssume(secs <= 100*366*86400)
	frac := int64(0)
	if vParam("whole") == 0 {
		frac = int64(vU32("frac") % 1000000000)
	}
	d := time.Duration(secs*1000000000 + frac)
	s := timeToSMPPTimeFormatRelative(d)
	vObserve("s", s)
	vKnown("KF-C19-relative-days-modulo-31", "C19.relative-fn.*", secs >= 31*86400)
	checkRelative("C19.relative-fn", s, secs)
	vReach("end")
}

// Absolute form: the UTC instant now+d rendered as YYMMDDhhmmss followed by "000+".
func VH_C19_absolute() {
	now := time.Now()
	d, secs := symDur()
	perr := vBool("parse-err")
	s, err := ToValidatePeriod(now, durText(d, perr), false)
	vObserveErr("err", err)
	if perr {
		vAssert("C19.absolute.unparsable-is-refused", err != nil)
		vReach("end")
		return
	}
	vAssume(secs <= 100*366*86400)
	if d < 0 {
		vAssert("C19.absolute.negative-is-refused", err != nil)
		vReach("end")
		return
	}
	vAssert("C19.absolute.accepted", err == nil)
	want := now.Add(d).UTC().Format("060102150405") + "000+"
	vAssert("C19.absolute.denotes-now-plus-duration-in-utc", s == want)
	vAssert("C19.absolute.length-16", len(s) == 16)
	vReach("end")
}
