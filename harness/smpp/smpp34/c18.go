//go:build verif

package smpp34

func init() {
	vRegister("VH_C18_smpp_receipt", VH_C18_smpp_receipt)
	vRegister("VH_C03_smpp_receipt_raw", VH_C03_smpp_receipt_raw)
}

var c18Keys = [8]string{"id", "sub", "dlvrd", "submit date", "done date", "stat", "err", "text"}

// A receipt "k1:v1 k2:v2 ..." built from an ordered selection of the standard keys
// (param sel: base-9 digits, digit = key index + 1) with symbolic values of arbitrary octets other than space and colon.
func VH_C18_smpp_receipt() {
	sel, vl := vParam("sel"), vParam("vl")
	var order []int
	for s := sel; s > 0; s /= 9 {
		order = append(order, s%9-1)
	}
	vals := map[int]string{}
	text := ""
	for i, k := range order {
		v := vString(vIdx("v", k), vl)
				for j := 0; j < len(v); j++ {
			vAssume(vAnd(v[j] != ':', v[j] != ' ')) // any octet (also NUL, invalid UTF-8) but space and colon
		}
		vals[k] = v
		if i > 0 {
			text += " "
		}
		text += c18Keys[k] + ":" + v
	}
	d, err := ExtractDeliveryReceipt(text)
	vObserveErr("err", err)
	got := [8]string{d.ID, d.Sub, d.Dlvrd, d.SubDate, d.DoneDate, d.Stat, d.Err, d.Text}
	vObserve("id", d.ID)
	vObserve("text", d.Text)
	vAssert("C18.smpp.no-error", err == nil)
	for k := 0; k < 8; k++ {
		want, present := vals[k]
		if present {
			vAssert("C18.smpp.present-key-value", got[k] == want)
		} else {
			vAssert("C18.smpp.absent-key-empty", got[k] == "")
		}
	}
	vReach("end")
}

// C03: arbitrary receipt text never panics / hangs.
func VH_C03_smpp_receipt_raw() {
	n := vParam("n")
	s := vString("s", n)
	vBudget(3000000, true)
	d, err := ExtractDeliveryReceipt(s)
	vObserve("id", d.ID)
	vObserveErr("err", err)
	vReach("end")
}
