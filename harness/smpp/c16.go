//go:build verif

package smpp

import (
	"github.com/hujm2023/go-sms-protocol/packet"
)

func init() {
	vRegister("VH_C16_tlv_set", VH_C16_tlv_set)
	vRegister("VH_C16_tlv_agree", VH_C16_tlv_agree)
	vRegister("VH_C16_tlv_nofab", VH_C16_tlv_nofab)
	vRegister("VH_C16_tlv_big", VH_C16_tlv_big)
}

func tlvTriplet(tag uint16, val []byte) []byte {
	return vCat(vBE(uint64(tag), 2), vBE(uint64(len(val)), 2), val)
}

// A set of k parameters with distinct tags serialises (in any map order) to triplets whose
// parse yields the same set, through both parsing entry points.
func VH_C16_tlv_set() {
	k, vlen := vParam("k"), vParam("vlen")
	vMapOrderAll(true)
	var set TLVs // adding to an empty (nil) container must take effect
	tags := make([]uint16, k)
	vals := make([][]byte, k)
	for i := 0; i < k; i++ {
		tags[i] = vU16(vIdx("tag", i))
		for j := 0; j < i; j++ {
			vAssume(tags[j] != tags[i])
		}
		vals[i] = vBytes(vIdx("val", i), vlen)
		set.SetTLV(NewTLV(tags[i], vals[i]))
	}
	vAssert("C16.tlv.add-to-empty-takes-effect", len(set) == k)
	b := set.Bytes()
	vObserve("len", len(b))
	vAssert("C16.tlv.serialised-size", len(b) == k*(4+vlen))
	got := ReadTLVs1(packet.NewPacketReader(b))
	got2, err := ReadTLVs(packet.NewPacketReader(b))
	vAssert("C16.tlv.ReadTLVs.no-error", err == nil)
	vAssert("C16.tlv.ReadTLVs1.count", len(got) == k)
	vAssert("C16.tlv.ReadTLVs.count", len(got2) == k)
	for i := 0; i < k; i++ {
		t, ok := got[tags[i]]
		vAssert("C16.tlv.ReadTLVs1.member", vAnd(ok, vAnd(vEqBytes(t.Value(), vals[i]), int(t.length) == vlen)))
		t2, ok2 := got2[tags[i]]
		vAssert("C16.tlv.ReadTLVs.member", vAnd(ok2, vAnd(vEqBytes(t2.Value(), vals[i]), int(t2.length) == vlen)))
	}
	vReach("end")
}

// Both parsers return the same set for every well-formed triplet sequence (duplicates allowed).
func VH_C16_tlv_agree() {
	k, vlen := vParam("k"), vParam("vlen")
	var b []byte
	for i := 0; i < k; i++ {
		b = append(b, tlvTriplet(vU16(vIdx("tag", i)), vBytes(vIdx("val", i), vlen))...)
	}
	got1 := ReadTLVs1(packet.NewPacketReader(b))
	got2, err := ReadTLVs(packet.NewPacketReader(b))
	vObserve("n1", len(got1))
	vAssert("C16.tlv.agree.no-error", err == nil)
	vAssert("C16.tlv.agree.count", len(got1) == len(got2))
	for tag, t := range got1 {
		u, ok := got2[tag]
		vAssert("C16.tlv.agree.member", vAnd(ok, vEqBytes(t.Bytes(), u.Bytes())))
	}
	vReach("end")
}

// No fabrication: whatever the parsers report is completely present in the input at a
// triplet boundary (reference walk of the input in the harness).
func VH_C16_tlv_nofab() {
	n := vParam("n")
	data := vBytes("in", n)
	want := map[uint16][]byte{}
	off := 0
	for off+4 <= n {
		tag := uint16(data[off])<<8 | uint16(data[off+1])
		ls := int(uint16(data[off+2])<<8 | uint16(data[off+3]))
		if ls > n-off-4 {
			break
		}
		l := vConcretize(ls)
		want[tag] = data[off+4 : off+4+l]
		off += 4 + l
	}
	got1 := ReadTLVs1(packet.NewPacketReader(data))
	got2, _ := ReadTLVs(packet.NewPacketReader(data))
	vObserve("n1", len(got1))
	for tag, t := range got1 {
		w, ok := want[tag]
		vAssert("C16.tlv.nofab.ReadTLVs1", vAnd(ok, vAnd(vEqBytes(t.Value(), w), int(t.length) == len(w))))
	}
	for tag, t := range got2 {
		w, ok := want[tag]
		vAssert("C16.tlv.nofab.ReadTLVs", vAnd(ok, vAnd(vEqBytes(t.Value(), w), int(t.length) == len(w))))
	}
	vReach("end")
}

// Values around the 16-bit length boundary: never a panic, and the declared length equals
// the number of value octets emitted.
func VH_C16_tlv_big() {
	n := vParam("n")
	tag := vU16("tag")
	val := make([]byte, n)
	t := NewTLV(tag, val)
	b := t.Bytes()
	vObserve("len", len(b))
	vAssert("C16.tlv.big.has-header", len(b) >= 4)
	if len(b) >= 4 {
		declared := int(b[2])<<8 | int(b[3])
		vAssert("C16.tlv.big.declared-length-is-emitted-length", declared == len(b)-4)
		vAssert("C16.tlv.big.tag", vAnd(b[0] == byte(tag>>8), b[1] == byte(tag)))
	}
	if n <= 65535 {
		vAssert("C16.tlv.big.representable-value-is-kept", len(b) == n+4)
	}
	var set TLVs
	set.SetTLV(t)
	sb := set.Bytes()
	vAssert("C16.tlv.big.set-bytes", len(sb) == len(b))
	vReach("end")
}
