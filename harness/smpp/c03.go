//go:build verif

package smpp

func init() { vRegister("VH_C03_headers", VH_C03_headers) }

func VH_C03_headers() {
	n := vParam("n")
	data := vBytes("in", n)
	h, err := PeekHeader(data)
	vAssert("C03.smpp.PeekHeader.short-is-error", (err != nil) == (n < 16))
	if err == nil {
		vAssert("C03.smpp.PeekHeader.fields", vAnd(vAnd(h.Length == vBE32(data), uint32(h.ID) == vBE32(data[4:])), vAnd(uint32(h.Status) == vBE32(data[8:]), h.Sequence == vBE32(data[12:]))))
	}
	vObserveErr("err", err)
	vReach("end")
}
