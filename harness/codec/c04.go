//go:build verif

package codec

import (
	"errors"
	"io"
)

func init() {
	vRegister("VH_C04_decode", VH_C04_decode)
	vRegister("VH_C04_decode_two", VH_C04_decode_two)
	vRegister("VH_C04_blocked", VH_C04_blocked)
	vRegister("VH_C04_history", VH_C04_history)
}

var errShortPeek = errors.New("short peek")
var errInjected = errors.New("injected read fault")

// vConn implements the documented ConnReader contract over a byte stream of which
// `arrived` octets have arrived so far; `cur` is the read cursor. Blocking reads return
// arbitrary chunk sizes and fail/end at an arbitrary point.
type vConn struct {
	stream  []byte
	cur     int
	arrived int
	// blocking side
	end     int  // the stream ends (EOF) or fails at this offset
	fault   bool // true: injected error at `end`, false: EOF
	reads   int
	maxRead int
	dataErr bool // the Read that delivers the last octet before `end` reports the end/fault in the same call (io.Reader allows n > 0 with err != nil)
}

func (c *vConn) Peek(n int) ([]byte, error) {
	avail := c.arrived - c.cur
	if n > avail {
		return c.stream[c.cur:c.arrived], errShortPeek
	}
	return c.stream[c.cur : c.cur+n], nil
}

func (c *vConn) Size() int { return c.arrived - c.cur }

func (c *vConn) Discard(n int) (int, error) {
	avail := c.arrived - c.cur
	if n > avail {
		c.cur = c.arrived
		return avail, errShortPeek
	}
	c.cur += n
	return n, nil
}

func (c *vConn) Read(p []byte) (int, error) {
	if len(p) == 0 {
		return 0, nil
	}
	left := c.end - c.cur
	if left <= 0 {
		if c.fault {
			return 0, errInjected
		}
		return 0, io.EOF
	}
	c.reads++
	max := left
	if len(p) < max {
		max = len(p)
	}
	k := max
	if c.reads <= c.maxRead {
		// an arbitrary chunk size 1..max
		k = vInt(vIdx("chunk", c.reads))
		vAssume(k >= 1 && k <= max)
		k = vConcretize(k)
	}
	copy(p, c.stream[c.cur:c.cur+k])
	c.cur += k
	if c.dataErr && c.cur == c.end {
		if c.fault {
			return k, errInjected
		}
		return k, io.EOF
	}
	return k, nil
}

func codecOf(which int) Codec {
	if which == 1 {
		return NewSMPPCodec()
	}
	return NewCMPPCodec()
}

func prefix(b []byte) int {
	return int(uint32(b[0])<<24 | uint32(b[1])<<16 | uint32(b[2])<<8 | uint32(b[3]))
}

// Non-blocking extractor, one step from an arbitrary reader state: the stream holds M
// octets, the cursor stands at `cur` and an arbitrary number of octets has arrived.
func VH_C04_decode() {
	M, cur, which := vParam("M"), vParam("cur"), vParam("codec")
	stream := vBytes("s", M)
	arrived := vInt("arrived")
	vAssume(arrived >= cur && arrived <= M)
	c := &vConn{stream: stream, cur: cur, arrived: arrived}
	frame, err := codecOf(which).Decode(c)
	vObserveErr("err", err)
	vObserve("frame", frame)
	avail := arrived - cur
	if avail < 4 {
		vAssert("C04.decode.incomplete-prefix", vAnd(errors.Is(err, ErrPacketNotComplete), frame == nil))
		vAssert("C04.decode.incomplete-consumes-nothing", c.cur == cur)
		vReach("end")
		return
	}
	L := prefix(stream[cur:])
	if L < 4 {
		vAssert("C04.decode.prefix-below-4-is-refused", vAnd(err != nil, vNot(errors.Is(err, ErrPacketNotComplete))))
		vAssert("C04.decode.prefix-below-4-no-frame", len(frame) == 0)
	} else if L > avail {
		vAssert("C04.decode.incomplete-frame", vAnd(errors.Is(err, ErrPacketNotComplete), frame == nil))
		vAssert("C04.decode.incomplete-consumes-nothing", c.cur == cur)
	} else {
		vAssert("C04.decode.frame-returned", vAnd(err == nil, len(frame) == L))
		if err == nil && len(frame) == L {
			vAssert("C04.decode.frame-octets", vEqBytes(frame, stream[cur:cur+L]))
		}
		vAssert("C04.decode.consumes-exactly-the-frame", c.cur == cur+L)
	}
	vReach("end")
}

// Two frames in one buffer: returned in order, exact consumption across calls.
func VH_C04_decode_two() {
	M, which := vParam("M"), vParam("codec")
	stream := vBytes("s", M)
	L1 := prefix(stream)
	vAssume(L1 >= 4 && L1+4 <= M)
	l1 := vConcretize(L1)
	L2 := prefix(stream[l1:])
	vAssume(L2 >= 4 && l1+L2 <= M)
	c := &vConn{stream: stream, cur: 0, arrived: M}
	cd := codecOf(which)
	f1, e1 := cd.Decode(c)
	f2, e2 := cd.Decode(c)
	vObserve("f1", f1)
	vObserve("f2", f2)
	vAssert("C04.two.first", vAnd(e1 == nil, vEqBytes(f1, stream[:l1])))
	vAssert("C04.two.second", vAnd(e2 == nil, vAnd(len(f2) == L2, vEqBytes(f2, stream[l1:l1+vMin(len(f2), M-l1)]))))
	vAssert("C04.two.consumed", c.cur == l1+L2)
	vReach("end")
}

// Blocking extractor: arbitrary chunking of the arriving octets, stream ending (EOF) or
// failing at an arbitrary offset.
func VH_C04_blocked() {
	M, which, fault := vParam("M"), vParam("codec"), vParam("fault")
	stream := vBytes("s", M)
	end := vInt("end")
	vAssume(end >= 0 && end <= M)
	end = vConcretize(end)
	c := &vConn{stream: stream, end: end, fault: fault == 1, maxRead: vParam("chunks"), dataErr: vParam("dataerr") == 1}
	vAllocLimit(1 << 20)
	var L int
	if M >= 4 {
		L = prefix(stream)
		// frames longer than the modelled stream are not explored here (bounded model)
		vAssume(L <= M+2)
	}
	frame, err := codecOf(which).DecodeBlocked(c)
	vObserveErr("err", err)
	vObserve("frame", frame)
	if end < 4 {
		vAssert("C04.blocked.no-prefix-is-error", vAnd(err != nil, frame == nil))
	} else if L < 4 {
		vAssert("C04.blocked.prefix-below-4-is-refused", vAnd(err != nil, len(frame) == 0))
	} else if L > end {
		vAssert("C04.blocked.short-stream-is-error-not-partial-frame", vAnd(err != nil, frame == nil))
	} else {
		vAssert("C04.blocked.frame-returned", vAnd(err == nil, len(frame) == L))
		if err == nil && len(frame) == L {
			vAssert("C04.blocked.frame-octets", vEqBytes(frame, stream[:L]))
		}
		vAssert("C04.blocked.consumes-exactly-the-frame", c.cur == L)
	}
	vReach("end")
}

// One codec value over an arrival history: the stream is exactly two frames (both lengths
// symbolic); octets arrive in three steps (a1 <= a2 <= M, symbolic) and the non-blocking
// extractor is polled after each arrival until it reports "incomplete". Whatever state the
// codec keeps between polls, the frames come out exactly once, in order, as soon as they are
// complete.
func VH_C04_history() {
	M, which := vParam("M"), vParam("codec")
	stream := vBytes("s", M)
	L1 := prefix(stream)
	vAssume(L1 >= 4 && L1+4 <= M)
	l1 := vConcretize(L1)
	L2 := prefix(stream[l1:])
	vAssume(L2 == M-l1)
	l2 := M - l1
	a1 := vInt("a1")
	vAssume(a1 >= 0 && a1 <= M)
	a1 = vConcretize(a1)
	a2 := vInt("a2")
	vAssume(a2 >= a1 && a2 <= M)
	a2 = vConcretize(a2)
	c := &vConn{stream: stream}
	cd := codecOf(which)
	got := 0
	poll := func(arrived int) {
		c.arrived = arrived
		for k := 0; k < 3; k++ {
			f, err := cd.Decode(c)
			if err != nil {
				vAssert("C04.history.only-incomplete-is-reported", vAnd(errors.Is(err, ErrPacketNotComplete), f == nil))
				break
			}
			if got >= 2 {
				vAssert("C04.history.no-third-frame", false)
				break
			}
			lo, hi := 0, l1
			if got == 1 {
				lo, hi = l1, l1+l2
			}
			vAssert("C04.history.frame-in-order-octet-for-octet", vEqBytes(f, stream[lo:hi]))
			got++
		}
		want := 0
		if arrived >= l1 {
			want++
		}
		if arrived >= l1+l2 {
			want++
		}
		vAssert("C04.history.frames-out-as-soon-as-complete", got == want)
	}
	poll(a1)
	poll(a2)
	poll(M)
	vObserve("got", got)
	vAssert("C04.history.consumed-exactly-both-frames", c.cur == M)
	vReach("end")
}
