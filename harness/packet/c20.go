//go:build verif

package packet

import (
	"bytes"
	"errors"

	"github.com/valyala/bytebufferpool"
)

func init() {
	vRegister("VH_C20_writer", VH_C20_writer)
	vRegister("VH_C20_reader_short", VH_C20_reader_short)
	vRegister("VH_C20_sequence", VH_C20_sequence)
}

func be(v uint64, n int) []byte {
	b := make([]byte, n)
	for i := 0; i < n; i++ {
		b[n-1-i] = byte(v >> uint(8*i))
	}
	return b
}

func cat(parts ...[]byte) []byte {
	var r []byte
	for _, p := range parts {
		r = append(r, p...)
	}
	return r
}

// One write primitive from an arbitrary valid (or errored) writer state, then the matching
// read primitive on (written bytes || arbitrary suffix).
//
// params: op 0..7, k = octets already in the writer, errored = 0/1, n = size parameter of the op
func VH_C20_writer() {
	op, k, errored, n := vParam("op"), vParam("k"), vParam("errored"), vParam("n")
	pre := vBytes("pre", k)
	w := &Writer{buf: bytebufferpool.Get()}
	_, _ = w.buf.Write(pre)
	w.written = k
	var e0 *packetOptError
	if errored == 1 {
		e0 = newPacketError(errors.New("first failure"), "earlier op")
		w.opError = e0
	}
	var payload []byte // octets the op is specified to append
	fits := true
	switch op {
	case 0:
		v := vU8("v")
		w.WriteUint8(v)
		payload = be(uint64(v), 1)
	case 1:
		v := vU16("v")
		w.WriteUint16(v)
		payload = be(uint64(v), 2)
	case 2:
		v := vU32("v")
		w.WriteUint32(v)
		payload = be(uint64(v), 4)
	case 3:
		v := vU64("v")
		w.WriteUint64(v)
		payload = be(v, 8)
	case 4:
		d := vBytes("d", n)
		w.WriteBytes(d)
		payload = d
	case 5:
		s := vString("s", n)
		w.WriteString(s)
		payload = []byte(s)
	case 6:
		s := vString("s", n)
		vAssume(vNoNUL(s))
		w.WriteCString(s)
		payload = cat([]byte(s), []byte{0})
	case 7:
		s := vStringUpTo("s", n+1)
		vAssume(vNoNUL(s))
		w.WriteFixedLenString(s, n)
		fits = len(s) <= n
		if fits {
			payload = cat([]byte(s), make([]byte, n-len(s)))
		}
	case 8:
		// WriteCString with arbitrary octets (a NUL inside the string is not invertible, but the
		// count / length prefix must still agree with the bytes written)
		s := vString("s", n)
		w.WriteCString(s)
		payload = cat([]byte(s), []byte{0})
	case 9:
		s := vString("s", n)
		w.WriteFixedLenString(s, n+2)
		payload = cat([]byte(s), []byte{0, 0})
	}
	got, gerr := w.Bytes()
	gotL, gerrL := w.BytesWithLength()
	vObserve("bytes", got)
	vObserveErr("err", gerr)
	if errored == 1 {
		// sticky error: nothing appended, zero results, first error kept
		vAssert("C20.sticky.error-kept", w.opError == e0)
		vAssert("C20.sticky.Error()", w.Error() != nil)
		vAssert("C20.sticky.no-bytes-added", vAnd(w.buf.Len() == k, vEqBytes(w.buf.B, pre)))
		vAssert("C20.sticky.Bytes-fails", vAnd(got == nil, gerr != nil))
		vAssert("C20.sticky.BytesWithLength-fails", vAnd(gotL == nil, gerrL != nil))
		vAssert("C20.sticky.Len-zero", w.Len() == 0)
		vAssert("C20.sticky.count-agrees-with-bytes", w.Written() == w.buf.Len())
		vReach("end")
		return
	}
	if !fits {
		vAssert("C20.fixed.too-long-is-error", vAnd(w.Error() != nil, vAnd(gerr != nil, got == nil)))
		vAssert("C20.fixed.too-long-adds-nothing", w.buf.Len() == k)
		vReach("end")
		return
	}
	want := cat(pre, payload)
	vAssert("C20.write.no-error", vAnd(gerr == nil, w.Error() == nil))
	vAssert("C20.write.bytes", vEqBytes(got, want))
	vAssert("C20.write.Written", w.Written() == len(want))
	vAssert("C20.write.Len", w.Len() == len(want))
	vAssert("C20.write.count-agrees-with-bytes", w.Written() == w.buf.Len())
	vAssert("C20.write.BytesWithLength", vAnd(gerrL == nil, vEqBytes(gotL, cat(be(uint64(len(want)+4), 4), want))))

	// matching read primitive on (payload || suffix) after skipping the prefix
	suffix := vBytes("suffix", 3)
	r := NewPacketReader(cat(want, suffix))
	skipped := r.ReadNBytes(k)
	vAssert("C20.read.prefix", vEqBytes(skipped, pre))
	switch op {
	case 0:
		vAssert("C20.inverse.u8", uint64(r.ReadUint8()) == uint64(vU8("v")))
	case 1:
		vAssert("C20.inverse.u16", r.ReadUint16() == vU16("v"))
	case 2:
		vAssert("C20.inverse.u32", r.ReadUint32() == vU32("v"))
	case 3:
		vAssert("C20.inverse.u64", r.ReadUint64() == vU64("v"))
	case 4:
		vAssert("C20.inverse.nbytes", vEqBytes(r.ReadNBytes(n), payload))
	case 5:
		vAssert("C20.inverse.string", r.ReadCStringNWithoutTrim(n) == string(payload))
	case 6:
		vAssert("C20.inverse.cstring", r.ReadCString() == vString("s", n))
	case 7:
		vAssert("C20.inverse.fixed", r.ReadCStringN(n) == vStringUpTo("s", n+1))
	case 8:
		_ = r.ReadNBytes(n + 1)
	case 9:
		_ = r.ReadNBytes(n + 2)
	}
	vAssert("C20.read.no-error", r.Error() == nil)
	vAssert("C20.read.leaves-suffix", vAnd(r.Remaining() == 3, vEqBytes(r.Bytes(), suffix)))
	vReach("end")
}

// Read primitives against arbitrary, possibly too short, input and from an errored reader.
//
// params: op 0..8, have = octets available, n = size parameter, errored = 0/1
func VH_C20_reader_short() {
	op, have, n, errored := vParam("op"), vParam("have"), vParam("n"), vParam("errored")
	data := vBytes("data", have)
	r := &Reader{buffer: bytes.NewBuffer(data)}
	var e0 *packetOptError
	if errored == 1 {
		e0 = newPacketError(errors.New("first failure"), "earlier op")
		r.opError = e0
	}
	need := n
	zero := true
	var exact bool
	switch op {
	case 0:
		v := r.ReadUint8()
		need = 1
		zero = v == 0
		exact = have >= 1 && v == data[0]
	case 1:
		v := r.ReadUint16()
		need = 2
		zero = v == 0
		exact = have >= 2 && v == uint16(data[0])<<8|uint16(data[1])
	case 2:
		v := r.ReadUint32()
		need = 4
		zero = v == 0
		exact = have >= 4 && v == uint32(data[0])<<24|uint32(data[1])<<16|uint32(data[2])<<8|uint32(data[3])
	case 3:
		v := r.ReadUint64()
		need = 8
		zero = v == 0
		exact = true
		if have >= 8 {
			var x uint64
			for i := 0; i < 8; i++ {
				x = x<<8 | uint64(data[i])
			}
			exact = v == x
		}
	case 4:
		v := r.ReadNBytes(n)
		zero = v == nil
		exact = have >= n && vEqBytes(v, data[:minI(n, have)])
	case 5:
		v := r.ReadCStringNWithoutTrim(n)
		zero = v == ""
		exact = have >= n && v == string(data[:minI(n, have)])
	case 6:
		v := r.ReadCStringN(n)
		zero = v == ""
		exact = true
		if have >= n {
			// cut at first NUL
			idx := bytes.IndexByte(data[:n], 0)
			cut := vIteInt(idx >= 0, idx, n)
			exact = vAnd(len(v) == cut, vEqBytes([]byte(v), data[:len(v)]))
		}
	case 7:
		v := r.ReadCString()
		idx := bytes.IndexByte(data, 0)
		need = vIteInt(idx >= 0, idx+1, have+1)
		zero = v == ""
		exact = vImplies(idx >= 0, vAnd(len(v) == idx, vEqBytes([]byte(v), data[:len(v)])))
	case 8:
		recv := make([]byte, n)
		r.ReadBytes(recv)
		exact = have >= n && vEqBytes(recv, data[:minI(n, have)])
		zero = true
	}
	if errored == 1 {
		vAssert("C20.rsticky.error-kept", r.opError == e0)
		vAssert("C20.rsticky.zero-value", zero)
		vAssert("C20.rsticky.consumes-nothing", r.buffer.Len() == have)
		vReach("end")
		return
	}
	if need > have {
		vAssert("C20.short.error-recorded", r.Error() != nil)
		vAssert("C20.short.zero-value", zero)
		// and it stays: a later read returns zero and keeps the error
		first := r.opError
		vAssert("C20.short.later-read-zero", vAnd(r.ReadUint8() == 0, r.opError == first))
	} else {
		vAssert("C20.enough.no-error", r.Error() == nil)
		vAssert("C20.enough.value", exact)
		if n > 0 || op < 4 || op == 7 {
			vAssert("C20.enough.consumed", r.Remaining() == have-need)
		}
	}
	vReach("end")
}

func minI(a, b int) int {
	if a < b {
		return a
	}
	return b
}

// A three-operation script with a failure injected in the middle: mirrors the way PDU
// encoders use the writer (invariant written == buf.Len() carried across operations).
func VH_C20_sequence() {
	w := NewPacketWriter()
	a := vU16("a")
	s := vStringUpTo("s", 5)
	vAssume(vNoNUL(s))
	c := vU32("c")
	w.WriteUint16(a)
	w.WriteFixedLenString(s, 4)
	w.WriteUint32(c)
	got, err := w.BytesWithLength()
	vObserve("out", got)
	if len(s) > 4 {
		vAssert("C20.seq.error-sticks", vAnd(err != nil, got == nil))
		vAssert("C20.seq.count-agrees-with-bytes", w.Written() == w.buf.Len())
	} else {
		want := cat(be(14, 4), be(uint64(a), 2), []byte(s), make([]byte, 4-len(s)), be(uint64(c), 4))
		vAssert("C20.seq.bytes", vAnd(err == nil, vEqBytes(got, want)))
		r := NewPacketReader(got)
		vAssert("C20.seq.read-back", vAnd(vAnd(r.ReadUint32() == 14, r.ReadUint16() == a), vAnd(r.ReadCStringN(4) == s, r.ReadUint32() == c)))
		vAssert("C20.seq.read-exhausted", vAnd(r.Error() == nil, r.Remaining() == 0))
	}
	w.Release()
	vReach("end")
}
