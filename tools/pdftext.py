#!/usr/bin/env python3
"""Minimal text extractor for the RC4-encrypted (V2/R3, empty user password) specification PDFs
in /repo/doc - used once to check the SMGP 3.0.3 layout tables in engine/driver/layouts.go
against the specification text. Pure standard library (md5, zlib); not used by any check.
usage: pdftext.py <file.pdf> > out.txt"""
import re, sys, zlib, hashlib, struct

PAD = bytes.fromhex("28BF4E5E4E758A4164004E56FFFA01082E2E00B6D0683E802F0CA9FE6453697A")

def rc4(key, data):
    S = list(range(256)); j = 0
    for i in range(256):
        j = (j + S[i] + key[i % len(key)]) & 255; S[i], S[j] = S[j], S[i]
    out = bytearray(); i = j = 0
    for b in data:
        i = (i + 1) & 255; j = (j + S[i]) & 255; S[i], S[j] = S[j], S[i]
        out.append(b ^ S[(S[i] + S[j]) & 255])
    return bytes(out)

def pdfstr(raw):
    # literal string body -> bytes (handles escapes)
    out = bytearray(); i = 0
    while i < len(raw):
        c = raw[i]
        if c == 0x5c:
            i += 1; c = raw[i]
            m = {ord('n'): 10, ord('r'): 13, ord('t'): 9, ord('b'): 8, ord('f'): 12}
            if c in m: out.append(m[c])
            elif 0x30 <= c <= 0x37:
                k = 1; v = c - 0x30
                while k < 3 and i + 1 < len(raw) and 0x30 <= raw[i+1] <= 0x37:
                    i += 1; v = v * 8 + raw[i] - 0x30; k += 1
                out.append(v & 255)
            elif c in (10, 13):
                if c == 13 and i + 1 < len(raw) and raw[i+1] == 10: i += 1
            else: out.append(c)
        else: out.append(c)
        i += 1
    return bytes(out)

def find_literal(d, start):
    # d[start] == '(' ; returns (bytes, end)
    depth = 0; i = start; 
    while True:
        c = d[i]
        if c == 0x5c: i += 2; continue
        if c == 0x28: depth += 1
        elif c == 0x29:
            depth -= 1
            if depth == 0: return pdfstr(d[start+1:i]), i + 1
        i += 1

def main(path):
    d = open(path, 'rb').read()
    m = re.search(rb'/Encrypt (\d+) 0 R', d)
    key = None
    if m:
        en = int(m.group(1))
        eo = re.search(rb'[\r\n]%d 0 obj' % en, d).end()
        body = d[eo:d.index(b'endobj', eo)]
        oi = body.index(b'/O(') + 2; O, _ = find_literal(body, oi)
        P = int(re.search(rb'/P (-?\d+)', body).group(1))
        idm = re.search(rb'/ID\[<([0-9A-Fa-f]+)>', d); ID = bytes.fromhex(idm.group(1).decode())
        h = hashlib.md5(PAD + O + struct.pack('<i', P) + ID).digest()
        for _ in range(50): h = hashlib.md5(h[:16]).digest()
        key = h[:16]
    objs = {}
    for m in re.finditer(rb'(?:^|[\r\n])(\d+) (\d+) obj', d):
        n, g = int(m.group(1)), int(m.group(2))
        e = d.find(b'endobj', m.end())
        objs[n] = (g, d[m.end():e])
    def okey(n, g):
        return hashlib.md5(key + struct.pack('<I', n)[:3] + struct.pack('<H', g)).digest()[:16]
    def stream(n):
        g, body = objs[n]
        si = body.find(b'stream')
        if si < 0: return None, body
        hdr = body[:si]
        s = si + 6
        if body[s:s+2] == b'\r\n': s += 2
        elif body[s:s+1] in (b'\n', b'\r'): s += 1
        lm = re.search(rb'/Length (\d+)( 0 R)?', hdr)
        if lm and not lm.group(2): L = int(lm.group(1)); data = body[s:s+L]
        else:
            e = body.rfind(b'endstream'); data = body[s:e].rstrip(b'\r\n')
        if key: data = rc4(okey(n, g), data)
        if b'FlateDecode' in hdr:
            try: data = zlib.decompress(data)
            except Exception as ex:
                try: data = zlib.decompressobj().decompress(data)
                except Exception: return hdr, None
        return hdr, data
    # ToUnicode maps per font object
    cmaps = {}
    for n, (g, body) in objs.items():
        m = re.search(rb'/ToUnicode (\d+) 0 R', body)
        if not m: continue
        _, cm = stream(int(m.group(1)))
        if cm is None: continue
        mp = {}
        for blk in re.finditer(rb'beginbfchar(.*?)endbfchar', cm, re.S):
            for a, b in re.findall(rb'<([0-9A-Fa-f]+)>\s*<([0-9A-Fa-f]+)>', blk.group(1)):
                mp[(len(a)//2, int(a, 16))] = bytes.fromhex(b.decode()).decode('utf-16-be', 'replace')
        for blk in re.finditer(rb'beginbfrange(.*?)endbfrange', cm, re.S):
            for a, b, c in re.findall(rb'<([0-9A-Fa-f]+)>\s*<([0-9A-Fa-f]+)>\s*<([0-9A-Fa-f]+)>', blk.group(1)):
                lo, hi, base = int(a, 16), int(b, 16), int(c, 16)
                for k in range(lo, hi + 1):
                    mp[(len(a)//2, k)] = chr(base + k - lo)
        cmaps[n] = mp
    # pages in file order of /Type/Page objects by page tree
    def refs(body, name):
        m = re.search(rb'/' + name + rb'\s*\[(.*?)\]', body, re.S)
        if m: return [int(x) for x in re.findall(rb'(\d+) 0 R', m.group(1))]
        m = re.search(rb'/' + name + rb' (\d+) 0 R', body)
        return [int(m.group(1))] if m else []
    root = int(re.search(rb'/Root (\d+) 0 R', d).group(1))
    pages_root = int(re.search(rb'/Pages (\d+) 0 R', objs[root][1]).group(1))
    order = []
    def walk(n):
        body = objs[n][1]
        if re.search(rb'/Type\s*/Pages', body):
            for k in refs(body, b'Kids'): walk(k)
        else: order.append(n)
    walk(pages_root)
    def fonts_of(n):
        body = objs[n][1]
        m = re.search(rb'/Resources (\d+) 0 R', body)
        res = objs[int(m.group(1))][1] if m else body
        fm = re.search(rb'/Font\s*<<(.*?)>>', res, re.S)
        if not fm:
            m2 = re.search(rb'/Font (\d+) 0 R', res)
            if not m2: return {}
            fbody = objs[int(m2.group(1))][1]
        else: fbody = fm.group(1)
        return {a.decode(): int(b) for a, b in re.findall(rb'/([A-Za-z0-9_+\-]+) (\d+) 0 R', fbody)}
    out = []
    for pi, pn in enumerate(order):
        fonts = fonts_of(pn)
        out.append('\n===== page %d =====\n' % (pi + 1))
        content = b''
        for c in refs(objs[pn][1], b'Contents'):
            _, data = stream(c)
            if data: content += data + b'\n'
        cur = None; line = []
        i = 0; toks = []
        # tokenise just enough: strings, hex strings, names, numbers, operators
        tokre = re.compile(rb'\((?:\\.|[^\\()]|\((?:\\.|[^\\()])*\))*\)|<[0-9A-Fa-f\s]*>|/[^\s/\[\]<>()]+|\[|\]|[^\s\[\]<>()/]+', re.S)
        stack = []
        def dec(b):
            mp = cmaps.get(cur)
            if not mp: 
                try: return b.decode('latin-1')
                except Exception: return ''
            w = 2 if any(k[0] == 2 for k in mp) else 1
            s = ''
            for k in range(0, len(b) - w + 1, w):
                code = int.from_bytes(b[k:k+w], 'big')
                s += mp.get((w, code), '')
            return s
        for t in tokre.finditer(content):
            tok = t.group(0)
            if tok == b'Tf':
                if len(stack) >= 2 and stack[-2][:1] == b'/':
                    cur = fonts.get(stack[-2][1:].decode('latin-1'))
                stack = []
            elif tok in (b'Tj', b"'", b'"', b'TJ'):
                for s in stack:
                    if s[:1] == b'(': line.append(dec(pdfstr(s[1:-1])))
                    elif s[:1] == b'<' and s[:2] != b'<<':
                        hx = re.sub(rb'\s', b'', s[1:-1]); 
                        if len(hx) % 2: hx += b'0'
                        line.append(dec(bytes.fromhex(hx.decode())))
                stack = []
            elif tok in (b'Td', b'TD', b'T*', b'Tm', b'ET'):
                if tok in (b'Tm', b'Td', b'TD') and len(stack) >= 2:
                    pass
                if line: out.append(''.join(line) + ('\n' if tok != b'Td' or True else ''))
                line = []; stack = []
            elif re.match(rb'^[A-Za-z\*\'\"]+$', tok) and tok not in (b'true', b'false', b'null'):
                stack = []
            else:
                stack.append(tok)
        if line: out.append(''.join(line) + '\n')
    sys.stdout.write(''.join(out))

if __name__ == '__main__':
    main(sys.argv[1])
