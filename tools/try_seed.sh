#!/bin/bash
# usage: try_seed.sh <dir with patch.diff> <property> [<property>...]
# Applies the seeded change to /repo, runs the baseline suite and the given checks (quick),
# then restores /repo. Prints one line per check: CAUGHT / MISSED.
set -u
d=$1; shift
cd /repo || exit 2
if ! git diff --quiet; then echo "repo not clean"; exit 2; fi
if ! git apply --check "$d/patch.diff" 2>/dev/null; then echo "PATCH-DOES-NOT-APPLY $d"; exit 2; fi
git apply "$d/patch.diff"
trap 'git -C /repo checkout -- . >/dev/null 2>&1' EXIT
/verif/tools/baseline.sh | tail -1
for p in "$@"; do
  out=$(cd /verif && timeout 3000 bin/vcheck run --property $p ${VCHECK_ARGS:-} 2>&1)
  rc=$?
  if echo "$out" | grep -q "^VIOLATION property=$p"; then
    echo "CAUGHT $p rc=$rc: $(echo "$out" | grep -A1 '^VIOLATION' | grep label | head -2 | tr '\n' ' ' | cut -c1-260)"
  else
    echo "MISSED $p rc=$rc: $(echo "$out" | tail -1 | cut -c1-200) $(echo "$out" | grep '^BROKEN\|^UNCONF' | head -2 | cut -c1-200)"
  fi
done
