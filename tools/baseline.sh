#!/bin/bash
# Runs the repository's pinned test suite (guard off) and prints pass/fail counts.
cd /repo && export GOFLAGS=-mod=mod GOPROXY=off GOSUMDB=off GOTOOLCHAIN=local
go test -mod=mod -json -vet=off -count=1 -timeout 25m ./... 2>/dev/null > /tmp/baseline.$$.json
python3 - /tmp/baseline.$$.json <<'PY'
import json,sys
want=set(json.load(open('/root/.vp/BASELINE.json'))['stable_pass'])
st={}
for l in open(sys.argv[1]):
    try: e=json.loads(l)
    except: continue
    if e.get('Test') and e.get('Action') in('pass','fail','skip'):
        st[e['Package']+'::'+e['Test']]=e['Action']
p=[k for k in want if st.get(k)=='pass']
bad=[k for k in want if st.get(k)!='pass']
print(f"baseline: {len(p)}/{len(want)} pass")
for b in bad[:20]: print("  NOT PASSING:",b,st.get(b))
sys.exit(0 if not bad else 1)
PY
rc=$?
rm -f /tmp/baseline.$$.json
exit $rc
