#!/usr/bin/env python3
"""Regenerates /verif/MANIFEST.json from the table below (kept next to the checks so the
manifest never drifts from what is registered in engine/driver)."""
import json, sys

BASE = json.load(open('/root/.vp/BASELINE.json'))['cmd']
SETUP = "cd /verif/engine && GOFLAGS=-mod=mod GOPROXY=off GOSUMDB=off GOTOOLCHAIN=local go build -o ../bin/vcheck ./cmd/vcheck"
TECH = "bounded symbolic execution of the real code's go/ssa + SMT (z3) per-path obligations; native replay of every model"
NOTE = ("Trusted: go/ssa construction (x/tools v0.29.0), the engine's instruction semantics and stubs (validated per run by executing "
        "solver witnesses and random inputs on both the engine and the real build), z3 5.1.0 (z3-new). Bounds and stubs are listed in the evidence file.")

# property -> (claimed?, level text, design ref)
CLAIMED = {
 "C13": ("Interleavings are not executed. Decided instead, on every symbolic path of the encode/decode/split/batch jobs: the reduction side-conditions under which any interleaving of calls on distinct values equals a sequential run (no store to package-level state, no use of a pooled buffer after Put, no buffer returned to the pool twice, disjoint write sets of the batch encoder's goroutines under every completion order), with the pooled buffer's content - the only schedule-dependent value - as a free solver variable.", "DESIGN.md 8 C13"),
 "C05": ("Every codec except GB18030 is executed symbolically (including the real x/text UTF-16 and Windows-1252 transformers with the tables their own initialisers build) on texts containing one symbolic scalar value ranging over all code points; 'encode fails or decode(encode(s)) == s', justified refusals, the inversion of the protocol-level content decoders and the refusal of every unsupported coding number are solver-decided.", "DESIGN.md 8 C05"),
 "C09": ("The comparator's order axioms are solver-decided over symbolic part counts and all valid codings; Build is executed for enumerated candidate lists with every map iteration order and every goroutine completion order explored as nondeterministic choices, the winner compared with an independent (parts, documented priority) minimum.", "DESIGN.md 8 C09"),
 "C06": ("The split entry points are executed symbolically on every ASCII text, every UCS-2 text of ASCII-range characters and every valid GSM 7-bit septet stream of the listed lengths (content, escape positions near the part boundaries, reference octet all symbolic); payload concatenation equals the encoded stream against a reference segmentation and a reference septet packer; fallback and reported coding for every BMP character and every invalid coding number.", "DESIGN.md 8 C06"),
 "C14": ("For every well-formed UTF-16 / unpacked GSM-7 / (restricted) GB18030 stream of the listed lengths through the generic splitter, and every valid septet stream through the packed splitter, the solver decides that no part ends inside a multi-unit character; the coding-agnostic cut is a known finding per coding.", "DESIGN.md 8 C14"),
 "C19": ("The duration is the solver's variable: ToValidatePeriod and the relative formatter are executed symbolically for every nanosecond count up to 2^32 seconds (and every negative one, every unparsable text via an error flag), the digits of the result are related to the duration through digit variables; the float64 accessors are handled assume-guarantee: their contract (integer part = integer quotient; q <= f < q+1; f >= q+0.5 exactly when the remainder is at least half a unit) is proved on the real time SSA in the SMT floating-point theory (cvc5) for the representable range, and used in place of the floats elsewhere.", "DESIGN.md 8 C19"),
 "C15": ("MD5 is abstracted as an uninterpreted function with congruence (every digest value possible), the decimal timestamp rendering by digit variables; the argument the library hands to MD5 is compared with the specification's concatenation, and the encode -> decode -> peer recomputation exchange is solver-decided for all accounts, secrets (every length 0..4, and exactly 15/16/32 octets), timestamps and digests, for the CMPP 2.0/3.0 connect exchange and the SMGP 3.0 login.", "DESIGN.md 8 C15"),
 "C18": ("Receipts are assembled from ordered key selections (enumerated) with symbolic values (arbitrary octets other than space and colon); the real extraction functions are executed symbolically (substring search as first-match terms) and every present/absent key's result is solver-decided; the CMPP status-report body round-trips as in C01.", "DESIGN.md 8 C18"),
 "C04": ("One-step relation against the framing specification from an arbitrary reader state: stream octets, cursor, number of arrived octets, read chunk sizes and the end/fault offset are solver variables; the real Decode/DecodeBlocked and io.ReadFull are executed symbolically; the reader model reports end/fault either by an empty Read or together with the last octets; arrival histories (one codec value polled after each of three symbolic arrivals of a two-frame stream) check that no state kept between polls changes the frames.", "DESIGN.md 8 C04"),
 "C16": ("Set round trip for 0..3 parameters with symbolic distinct tags and values under every serialisation order (map order explored as a nondeterministic choice), agreement of the two parsers on well-formed sequences, no-fabrication against a reference walk for every short octet string, and the 16-bit size boundary jobs are all solver-decided on the real TLV/Options code.", "DESIGN.md 8 C16"),
 "C12": ("One-step induction over call histories: every PDU type is encoded with the buffer pool in an arbitrary state (stale content on Get, backing array havocked on Put) and decoded from a buffer that is then overwritten with arbitrary octets, another value and then the same value (changed) are encoded afterwards; the encoder's bytes and every decoded field must be unchanged - decided by z3 with the overwritten octets as free variables.", "DESIGN.md 8 C12"),
 "C11": ("Stability: every octet string of the listed lengths that a decoder accepts (all octets symbolic) is re-encoded and decoded again symbolically; success and field-wise equality are solver-decided on every accepting path. Canonical images: the symbolic PDUs of C01 are re-encoded after decoding and compared bit-for-bit.", "DESIGN.md 8 C11"),
 "C03": ("Every PDU decoder and dispatcher is executed symbolically on an input whose N octets are all symbolic (one job subsumes every truncation, every count/length substitution and every trailing garbage of that total length); panics, instruction-budget overruns (non-termination), symbolic allocation sizes above 16N+1024 and accepted-but-short inputs are solver-decided per path. Auxiliary parsers (headers, TLV/options, concatenation header, receipts, septet unpacking, text decoders, frame extractors) have their own jobs.", "DESIGN.md 8 C03"),
 "C10": ("Request/response pairing, sequence propagation (all sequence words symbolic), command-id consistency of dispatcher-decoded and generated PDUs and the unsupported-id answer (32-bit command word symbolic outside the package's table) are decided per PDU type against a command table transcribed from the specifications.", "DESIGN.md 8 C10"),
 "C01": ("For each of the 57 PDU types (+ the CMPP status-report body) a generated in-package harness builds the PDU from symbolic field values (all integer values, all text contents and lengths 0..w+1, all binary octets), runs the real IEncode and IDecode symbolically and decides field-wise equality, the length prefix and the refusal of over-long values with z3 on every path; list counts, body lengths and optional-parameter shapes are enumerated as listed in the evidence.", "DESIGN.md 8 C01"),
 "C02": ("Same symbolic PDUs as C01; the encoder's bytes are compared octet-for-octet with a reference image assembled from layout tables transcribed from the specifications (independent of the library's writer), and the reference image is decoded and compared field-wise (the SMGP tables were checked against the text of doc/'s SMGP 3.0.3 PDF, extracted with tools/pdftext.py). Includes the list counts 12/13 (and 99/255 thorough) where length arithmetic can wrap.", "DESIGN.md 8 C02"),
 "C07": ("The concatenation-header parser is decided for every string up to 10 octets (all header octets symbolic); the generic splitter for every octet stream of the listed lengths (content and reference symbolic) against an independent oracle (sizes, header octets, minimal part count, parser inverse); the 255-part limit through the real entry points.", "DESIGN.md 8 C07"),
 "C20": ("One-step induction: every write/read primitive is executed symbolically from an arbitrary valid or errored object state with arbitrary arguments; inverse, count/length agreement and error stickiness are solver-decided per primitive. Bounded by buffer sizes listed in the evidence.", "DESIGN.md 8 C20"),
 "C08": ("Encode/Decode/validators are decided for every code point and every septet pair against an independently transcribed TS 23.038 table; Pack/Unpack and the transformers for every septet vector up to the stated length against the bit-position formula. Bounded by vector length only.", "DESIGN.md 8 C08"),
 "C17": ("All 2^64 ids and all in-range field tuples are decided by bit-vector queries over the SSA of CombineMsgID/SplitMsgID; the decimal string form (MsgID2String, MsgIDString2Uint64) is executed with Sprintf as digit variables and a model of Sscanf for %Nd formats on digit strings, and must parse back to the same id for every non-zero id; the only bound is the machine word.", "DESIGN.md 8 C17"),
}
NA_REASON = "check not built yet (engine under construction); see DESIGN.md section 8"
NA = {}

props = [json.loads(l) for l in open('/verif/properties.jsonl')]
checks, na = [], []
for p in props:
    pid = p['id']
    if pid in CLAIMED:
        text, ref = CLAIMED[pid]
        checks.append({
            "property_id": pid,
            "quick_cmd": f"bin/vcheck run --property {pid} --tier quick",
            "thorough_cmd": f"bin/vcheck run --property {pid} --tier thorough",
            "evidence_file": f"/verif/evidence/{pid}.json",
            "replay_cmd_template": "bin/vcheck replay {path}",
            "engine": "gosym",
            "level_claimed": {"category": "model_checking", "text": text, "design_ref": ref},
            "level_note": NOTE,
            "technique": TECH,
        })
    else:
        na.append({"property_id": pid, "reason": NA.get(pid, NA_REASON)})
m = {
 "version": 1,
 "setup_cmd": SETUP,
 "hooks": {"guard": "verif", "enable": "harness files are injected by go/packages Overlay and `go test -overlay` with -tags verif; nothing is written into /repo",
           "baseline_off_cmd": BASE, "source_commits": [], "add_only": True},
 "engines": [{"name": "gosym", "path": "/verif/engine", "serves_properties": sorted(CLAIMED),
              "kind_free_text": "symbolic executor over go/ssa of /repo's working tree emitting SMT-LIB2 to z3 -in; in-package harnesses injected by overlay; native replay via go test -overlay"}],
 "checks": checks,
 "not_applicable": na,
}
json.dump(m, open('/verif/MANIFEST.json', 'w'), indent=1)
print("claimed:", sorted(CLAIMED), "na:", len(na))
