package driver

import (
	"fmt"
	"math/rand"
)

// ordered selections of k distinct keys out of 8, encoded base 9 (digit = key+1)
func selections(k int) []int {
	var out []int
	var rec func(prefix []int)
	rec = func(prefix []int) {
		if len(prefix) == k {
			v := 0
			for i := len(prefix) - 1; i >= 0; i-- {
				v = v*9 + prefix[i] + 1
			}
			out = append(out, v)
			return
		}
		for c := 0; c < 8; c++ {
			dup := false
			for _, p := range prefix {
				if p == c {
					dup = true
				}
			}
			if !dup {
				rec(append(append([]int(nil), prefix...), c))
			}
		}
	}
	rec(nil)
	return out
}

func c18Jobs(tier string) []Job {
	var js []Job
	rng := rand.New(rand.NewSource(18))
	var sels []int
	sels = append(sels, selections(1)...)
	sels = append(sels, selections(2)...)
	s3 := selections(3)
	if tier == "thorough" {
		sels = append(sels, s3...)
		s4 := selections(4)
		rng.Shuffle(len(s4), func(i, j int) { s4[i], s4[j] = s4[j], s4[i] })
		sels = append(sels, s4[:300]...)
	} else {
		rng.Shuffle(len(s3), func(i, j int) { s3[i], s3[j] = s3[j], s3[i] })
		sels = append(sels, s3[:60]...)
	}
	// canonical full receipt and its reverse
	full, rev := 0, 0
	for i := 7; i >= 0; i-- {
		full = full*9 + i + 1
	}
	for i := 0; i <= 7; i++ {
		rev = rev*9 + i + 1
	}
	sels = append(sels, full, rev, 0)
	for _, sel := range sels {
		for _, vl := range []int{0, 2} {
			js = append(js, Job{Dir: "smpp/smpp34", Harness: "VH_C18_smpp_receipt", Params: map[string]int{"sel": sel, "vl": vl}, Name: fmt.Sprintf("smpp_receipt_sel%d_vl%d", sel, vl)})
		}
		for _, vl := range []int{1, 12} {
			alts := []int{0, 0xff}
			if tier == "thorough" {
				alts = []int{0, 0xff, 0x55, 0xaa}
			}
			for _, alt := range alts {
				js = append(js, Job{Dir: "smgp/smgp30", Harness: "VH_C18_smgp_receipt", Params: map[string]int{"sel": sel, "vl": vl, "alt": alt}, Name: fmt.Sprintf("smgp_receipt_sel%d_vl%d_alt%x", sel, vl, alt)})
			}
		}
	}
	// the CMPP status-report body round trip
	for _, l := range Layouts {
		if l.Type == "SubPduDeliveryContent" {
			for _, ps := range pduParamSets(l, tier, false) {
				js = append(js, Job{Dir: l.Dir, Harness: "VH_PDU_" + l.Type, Params: ps.m(1), Name: "cmpp.SubPduDeliveryContent.roundtrip"})
			}
		}
	}
	return js
}

func init() {
	register(&PropSpec{
		ID:        "C18",
		Jobs:      c18Jobs,
		Functions: []string{"smpp34.ExtractDeliveryReceipt, findSubValue", "smgp30.ExtractDeliveryReceipt, findSubValue, findSMGPIDValue", "cmpp.SubPduDeliveryContent.IEncode/IDecode", "encoding/hex (real SSA)"},
		Stubs:     []string{"strings.Index: first-match ite chain over the symbolic text"},
		Bounds: map[string]string{
			"orderings": "quick: every ordered selection of 1 and 2 of the 8 standard keys, 60 random selections of 3, the canonical 8-key receipt, its reverse and the empty text; thorough: all selections of 3 and 300 random selections of 4",
			"values":    "symbolic strings of arbitrary octets (NUL and invalid UTF-8 included) other than space and colon, of length 0/2 (SMPP) and 1/12 (SMGP; 12 exceeds every width but text's); SMGP id: ten symbolic octets (any value except ':')",
			"spellings": "SMGP: all primary, all backup (thorough: two mixed patterns)",
		},
		Outside: []string{"values containing ':' that do not spell a key token", "receipts with more than 4 keys other than the canonical one", "ExtractDeliveryReceipt1 (fmt.Sscanf, deprecated)"},
	})
}
