package driver

import (
	"fmt"
	"sort"
	"strings"
)

// Known-finding annotations of generated assertions: label -> (id, excuse expression in the
// generated harness's scope). Each is decided as described in DESIGN.md section 7: the
// assertion must hold under NOT excuse; the excuse case is reported as KNOWN-FINDING only
// if /verif/known_findings.jsonl lists the id for the property being run.
type kfAnn struct {
	ID     string
	Excuse string
}

func intBytes(kind string) int {
	switch kind {
	case "u8", "cnt8", "len8":
		return 1
	case "u16":
		return 2
	case "u32", "len32":
		return 4
	case "u64":
		return 8
	}
	return 0
}

func hdrWords(h string) int {
	switch h {
	case "cmpp", "smgp":
		return 3
	case "sgip":
		return 5
	case "smpp":
		return 4
	}
	return 0
}

func imports(l PDULayout) []string {
	var r []string
	if hasKind(l, "tlvs") {
		r = append(r, Module+"/smpp")
	}
	if hasKind(l, "opts") {
		r = append(r, Module+"/smgp")
	}
	return r
}

func hasKind(l PDULayout, k string) bool {
	for _, f := range l.Fields {
		if f.Kind == k {
			return true
		}
	}
	return false
}

func hasKindW(l PDULayout, k string, w int) bool {
	for _, f := range l.Fields {
		if f.Kind == k && f.W == w {
			return true
		}
	}
	return false
}

func csFields(l PDULayout) []Fld {
	var r []Fld
	for _, f := range l.Fields {
		if f.Kind == "cs" {
			r = append(r, f)
		}
	}
	return r
}

// authenticator / id fields read back with the C-string reader
func fieldKF(l PDULayout, f Fld) (kfAnn, bool) {
	if f.Kind == "fb" && f.W == 16 {
		return kfAnn{ID: "KF-authenticator-cut-at-nul", Excuse: fmt.Sprintf("vAnyZero([]byte(p.%s))", f.Name)}, true
	}
	if f.Kind == "fb" && f.W == 10 && l.Pkg == "smgp30" {
		return kfAnn{ID: "KF-smgp-msgid-raw-on-encode-hex-on-decode", Excuse: "true"}, true
	}
	return kfAnn{}, false
}

// GenPDUHarness emits the harness functions for one PDU type.
func genPDU(l PDULayout, sb *strings.Builder) {
	T := l.Type
	w := func(format string, a ...any) { fmt.Fprintf(sb, format+"\n", a...) }
	lab := func(prop, what string) string { return fmt.Sprintf("%s.%s.%s.%s", prop, l.Pkg, T, what) }

	// ------------------------------------------------------------------ builder shared by C01/C02/C10/C11/C12
	w("// ---- %s.%s", l.Pkg, T)
	w("func vBuild_%s(p *%s, cnt, blen, ntlv, tlen, cslen, csbig int) (tooLong bool, hexraw [][]byte, tags []uint16, tvals [][]byte) {", T, T)
	switch l.Hdr {
	case "cmpp", "smgp":
		w("	p.Header.TotalLength = vU32(\"h.len\")")
		w("	vSetU(&p.Header.CommandID, uint64(vU32(\"h.cmd\")))")
		w("	p.Header.SequenceID = vU32(\"h.seq\")")
	case "sgip":
		w("	p.Header.TotalLength = vU32(\"h.len\")")
		w("	vSetU(&p.Header.CommandID, uint64(vU32(\"h.cmd\")))")
		w("	p.Header.Sequence = [3]uint32{vU32(\"h.s0\"), vU32(\"h.s1\"), vU32(\"h.s2\")}")
	case "smpp":
		w("	p.Header.Length = vU32(\"h.len\")")
		w("	vSetU(&p.Header.ID, uint64(vU32(\"h.cmd\")))")
		w("	vSetU(&p.Header.Status, uint64(vU32(\"h.status\")))")
		w("	p.Header.Sequence = vU32(\"h.seq\")")
	}
	csi := 0
	for _, f := range l.Fields {
		n := f.Name
		switch f.Kind {
		case "u8":
			w("	vSetU(&p.%s, uint64(vU8(%q)))", n, n)
		case "u16":
			w("	vSetU(&p.%s, uint64(vU16(%q)))", n, n)
		case "u32":
			w("	vSetU(&p.%s, uint64(vU32(%q)))", n, n)
		case "u64":
			w("	vSetU(&p.%s, vU64(%q))", n, n)
		case "fs":
			w("	p.%s = vStringUpTo(%q, %d)", n, n, f.W+1)
			w("	vAssume(vNoNUL(p.%s))", n)
			w("	tooLong = vOr(tooLong, len(p.%s) > %d)", n, f.W)
		case "fb":
			w("	p.%s = vString(%q, %d)", n, n, f.W)
		case "hex":
			w("	{ raw := vBytes(%q, %d); hexraw = append(hexraw, raw); p.%s = vHex(raw) }", n, f.W, n)
		case "cs":
			w("	{ n := cslen; if csbig == %d { n = %d }; p.%s = vString(%q, n); vAssume(vNoNUL(p.%s)) }", csi, f.W-1, n, n, n)
			csi++
		case "cnt8":
			w("	vSetU(&p.%s, uint64(cnt))", n)
		case "list":
			w("	if cnt > 0 { p.%s = make([]string, cnt) }", n)
			w("	for i := 0; i < cnt; i++ {")
			w("		if cnt > 3 && i >= 2 {")
			w("			// long lists: entries beyond the second have exactly the slot width (keeps the path count linear)")
			w("			p.%s[i] = vString(vIdx(%q, i), %d)", n, n, f.W)
			w("		} else {")
			w("			p.%s[i] = vStringUpTo(vIdx(%q, i), %d)", n, n, f.W+1)
			w("			tooLong = vOr(tooLong, len(p.%s[i]) > %d)", n, f.W)
			w("		}")
			w("		vAssume(vNoNUL(p.%s[i]))", n)
			w("	}")
		case "len8", "len32":
			w("	vSetU(&p.%s, uint64(blen))", n)
		case "body":
			w("	p.%s = vString(%q, blen)", n, n)
		case "bodyb":
			w("	if blen > 0 { p.%s = vBytes(%q, blen) }", n, n)
		case "u32x3":
			w("	p.%s = [3]uint32{vU32(%q), vU32(%q), vU32(%q)}", n, n+"0", n+"1", n+"2")
		case "tlvs":
			w("	for i := 0; i < ntlv; i++ {")
			w("		tag := vU16(vIdx(\"tag\", i)); val := vBytes(vIdx(\"tval\", i), tlen)")
			w("		for _, o := range tags { vAssume(o != tag) }")
			w("		tags = append(tags, tag); tvals = append(tvals, val)")
			w("		p.%s.SetTLV(smpp.NewTLV(tag, val))", n)
			w("	}")
		case "opts":
			w("	if ntlv > 0 { p.%s = smgp.Options{} }", n)
			w("	for i := 0; i < ntlv; i++ {")
			w("		tag := vU16(vIdx(\"tag\", i)); val := vBytes(vIdx(\"tval\", i), tlen)")
			w("		for _, o := range tags { vAssume(o != tag) }")
			w("		tags = append(tags, tag); tvals = append(tvals, val)")
			w("		p.%s.Add(smgp.NewOption(smgp.Tag(tag), val))", n)
			w("	}")
		}
	}
	w("	return")
	w("}")
	w("")

	// ------------------------------------------------------------------ reference image from the layout table
	w("// reference image of %s assembled from the specification layout, independent of the library's writer", T)
	w("func vImage_%s(p *%s, cnt, blen int, hexraw [][]byte, tags []uint16, tvals [][]byte) (fixed []byte, tlvArea [][]byte) {", T, T)
	w("	var body []byte")
	hexi := 0
	for _, f := range l.Fields {
		n := f.Name
		switch f.Kind {
		case "u8", "u16", "u32", "u64", "cnt8", "len8", "len32":
			w("	body = append(body, vBE(vGetU(p.%s), %d)...)", n, intBytes(f.Kind))
		case "fs":
			w("	body = append(body, vPad(p.%s, %d)...)", n, f.W)
		case "fb":
			w("	body = append(body, []byte(p.%s)...)", n)
		case "hex":
			w("	body = append(body, hexraw[%d]...)", hexi)
			hexi++
		case "cs":
			w("	body = append(body, []byte(p.%s)...)", n)
			w("	body = append(body, 0)")
		case "list":
			w("	for i := 0; i < cnt; i++ { body = append(body, vPad(p.%s[i], %d)...) }", n, f.W)
		case "body":
			w("	body = append(body, []byte(p.%s)...)", n)
		case "bodyb":
			w("	body = append(body, p.%s...)", n)
		case "u32x3":
			w("	for i := 0; i < 3; i++ { body = append(body, vBE(uint64(p.%s[i]), 4)...) }", n)
		case "tlvs", "opts":
			w("	for i := range tags { tlvArea = append(tlvArea, vCat(vBE(uint64(tags[i]), 2), vBE(uint64(len(tvals[i])), 2), tvals[i])) }")
		}
	}
	w("	total := %d + len(body)", 4*hdrWords(l.Hdr))
	w("	for _, t := range tlvArea { total += len(t) }")
	switch l.Hdr {
	case "cmpp", "smgp":
		w("	fixed = vCat(vBE(uint64(total), 4), vBE(vGetU(p.Header.CommandID), 4), vBE(uint64(p.Header.SequenceID), 4), body)")
	case "sgip":
		w("	fixed = vCat(vBE(uint64(total), 4), vBE(vGetU(p.Header.CommandID), 4), vBE(uint64(p.Header.Sequence[0]), 4), vBE(uint64(p.Header.Sequence[1]), 4), vBE(uint64(p.Header.Sequence[2]), 4), body)")
	case "smpp":
		w("	fixed = vCat(vBE(uint64(total), 4), vBE(vGetU(p.Header.ID), 4), vBE(vGetU(p.Header.Status), 4), vBE(uint64(p.Header.Sequence), 4), body)")
	default:
		w("	_ = total")
		w("	fixed = body")
	}
	w("	return")
	w("}")
	w("")

	// ------------------------------------------------------------------ field comparison
	w("func vCompare_%s(prop string, p, q *%s, cnt int, srcLen int, hexraw [][]byte, tags []uint16, tvals [][]byte) {", T, T)
	switch l.Hdr {
	case "cmpp", "smgp":
		w("	vAssert(prop+\".%s.%s.Header.TotalLength\", int(q.Header.TotalLength) == srcLen)", l.Pkg, T)
		w("	vAssert(prop+\".%s.%s.Header.CommandID\", vGetU(q.Header.CommandID) == vGetU(p.Header.CommandID))", l.Pkg, T)
		w("	vAssert(prop+\".%s.%s.Header.SequenceID\", q.Header.SequenceID == p.Header.SequenceID)", l.Pkg, T)
	case "sgip":
		w("	vAssert(prop+\".%s.%s.Header.TotalLength\", int(q.Header.TotalLength) == srcLen)", l.Pkg, T)
		w("	vAssert(prop+\".%s.%s.Header.CommandID\", vGetU(q.Header.CommandID) == vGetU(p.Header.CommandID))", l.Pkg, T)
		w("	vAssert(prop+\".%s.%s.Header.Sequence\", q.Header.Sequence == p.Header.Sequence)", l.Pkg, T)
	case "smpp":
		w("	vAssert(prop+\".%s.%s.Header.Length\", int(q.Header.Length) == srcLen)", l.Pkg, T)
		w("	vAssert(prop+\".%s.%s.Header.ID\", vGetU(q.Header.ID) == vGetU(p.Header.ID))", l.Pkg, T)
		w("	vAssert(prop+\".%s.%s.Header.Status\", vGetU(q.Header.Status) == vGetU(p.Header.Status))", l.Pkg, T)
		w("	vAssert(prop+\".%s.%s.Header.Sequence\", q.Header.Sequence == p.Header.Sequence)", l.Pkg, T)
	}
	for _, f := range l.Fields {
		n := f.Name
		label := fmt.Sprintf("prop+\".%s.%s.%s\"", l.Pkg, T, n)
		if kf, ok := fieldKF(l, f); ok {
			w("	vKnown(%q, prop+\".%s.%s.%s\", %s)", kf.ID, l.Pkg, T, n, kf.Excuse)
		}
		switch f.Kind {
		case "u8", "u16", "u32", "u64", "cnt8", "len8", "len32":
			w("	vAssert(%s, vGetU(q.%s) == vGetU(p.%s))", label, n, n)
		case "fs", "fb", "cs", "body", "hex":
			w("	vAssert(%s, q.%s == p.%s)", label, n, n)
		case "bodyb":
			w("	vAssert(%s, vEqBytes(q.%s, p.%s))", label, n, n)
		case "list":
			w("	vAssert(%s+\".len\", len(q.%s) == cnt)", label, n)
			w("	for i := 0; i < cnt && i < len(q.%s); i++ { vAssert(%s, q.%s[i] == p.%s[i]) }", n, label, n, n)
		case "u32x3":
			w("	vAssert(%s, q.%s == p.%s)", label, n, n)
		case "tlvs":
			w("	vAssert(%s+\".count\", len(q.%s) == len(tags))", label, n)
			w("	for i, tag := range tags { t, ok := q.%s[tag]; vAssert(%s, vAnd(ok, vEqBytes(t.Bytes(), vCat(vBE(uint64(tag), 2), vBE(uint64(len(tvals[i])), 2), tvals[i])))) }", n, label)
		case "opts":
			w("	vAssert(%s+\".count\", len(q.%s) == len(tags))", label, n)
			w("	for i, tag := range tags { t, ok := q.%s[smgp.Tag(tag)]; vAssert(%s, vAnd(ok, vEqBytes(t.Bytes(), vCat(vBE(uint64(tag), 2), vBE(uint64(len(tvals[i])), 2), tvals[i])))) }", n, label)
		}
	}
	w("	_, _, _, _ = cnt, hexraw, tags, tvals")
	w("}")
	w("")

	// ------------------------------------------------------------------ C01 / C02 / C11(canonical) / C12 harness
	w("func VH_PDU_%s() {", T)
	w("	prop := vParam(\"prop\")")
	w("	cnt, blen, ntlv, tlen, cslen, csbig := vParam(\"cnt\"), vParam(\"blen\"), vParam(\"ntlv\"), vParam(\"tlen\"), vParam(\"cslen\"), vParam(\"csbig\")")
	w("	p := new(%s)", T)
	w("	tooLong, hexraw, tags, tvals := vBuild_%s(p, cnt, blen, ntlv, tlen, cslen, csbig)", T)
	for _, kf := range typeKFs(l) {
		w("	vKnown(%q, %q, %s)", kf.ID, kf.Pattern, kf.Excuse)
	}
	if l.Pkg == "smgp30" && hasKindW(l, "fb", 10) {
		// the decoded PDU holds the hex-expanded id and cannot be re-encoded (same known finding as the MsgID comparison)
		w("	vKnown(\"KF-smgp-msgid-raw-on-encode-hex-on-decode\", %q, true)", lab("C11", "canonical.re-encode-*"))
	}
	w("	if prop == 12 { vPoolStale(8) }")
	w("	b, err := p.IEncode()")
	w("	if ntlv < 2 { vObserve(\"bytes\", b) } else { vObserve(\"len\", len(b)) }")
	w("	vObserveErr(\"err\", err)")
	w("	if tooLong {")
	w("		vAssert(%q, vAnd(err != nil, len(b) == 0))", lab("C01", "too-long-value-is-refused"))
	w("		vReach(\"end\")")
	w("		return")
	w("	}")
	w("	vAssert(%q, err == nil)", lab("C01", "encode-succeeds"))
	w("	if err != nil { vReach(\"end\"); return }")
	w("	fixed, tlvArea := vImage_%s(p, cnt, blen, hexraw, tags, tvals)", T)
	if l.Pkg == "smgp30" && T == "ActiveTestResp" {
		// the library emits one Reserved octet after the header; the specification has no body.
		// Excused only in exactly that shape: spec image + one octet, length word = 13.
		w("	vKnown(\"KF-smgp-activetestresp-one-octet-body\", %q, vAnd(len(b) == len(fixed)+1, vAnd(int(vBE32(b)) == len(b), vEqBytes(b[4:vMin(len(fixed), len(b))], fixed[4:]))))", lab("C02", "image*"))
	}
	if l.Hdr != "none" {
		w("	vAssert(%q, vAnd(len(b) >= 4, int(vBE32(b)) == len(b)))", lab("C01", "length-prefix-is-byte-count"))
	}
	w("	src := b")
	w("	if prop == 2 {")
	if l.Hdr != "none" {
		w("		vAssert(%q, vAnd(len(b) >= 4, int(vBE32(b)) == len(b)))", lab("C02", "length-prefix"))
	}
	w("		vAssert(%q, vAnd(len(b) >= len(fixed), vEqBytes(b[:vMin(len(fixed), len(b))], fixed)))", lab("C02", "image"))
	w("		rest := b[vMin(len(fixed), len(b)):]")
	w("		switch len(tlvArea) {")
	w("		case 0:")
	w("			vAssert(%q, len(rest) == 0)", lab("C02", "image.no-trailing-octets"))
	w("		case 1:")
	w("			vAssert(%q, vEqBytes(rest, tlvArea[0]))", lab("C02", "image.optional-parameters"))
	w("		case 2:")
	w("			vAssert(%q, vOr(vEqBytes(rest, vCat(tlvArea[0], tlvArea[1])), vEqBytes(rest, vCat(tlvArea[1], tlvArea[0]))))", lab("C02", "image.optional-parameters"))
	w("		}")
	w("		// decode the independently assembled image")
	w("		src = vCat(fixed, vCat(tlvArea...))")
	w("	}")
	w("	if prop == 12 { src = append([]byte(nil), b...) } // the network layer's own buffer")
	w("	q := new(%s)", T)
	w("	derr := q.IDecode(src)")
	w("	vObserveErr(\"derr\", derr)")
	w("	pfx := \"C01\"")
	w("	if prop == 2 { pfx = \"C02\" }")
	w("	if prop == 11 { pfx = \"C11\" }")
	w("	if prop == 12 { pfx = \"C12\" }")
	w("	vAssert(pfx+\".%s.%s.decode-succeeds\", derr == nil)", l.Pkg, T)
	w("	if derr != nil { vReach(\"end\"); return }")
	w("	if prop == 12 {")
	w("		// the caller reuses its input buffer: nothing decoded may change")
	w("		vHavoc(src)")
	w("	}")
	w("	vCompare_%s(pfx, p, q, cnt, len(src), hexraw, tags, tvals)", T)
	w("	if prop == 11 {")
	w("		// canonical images re-encode bit-for-bit (optional parameters as a set)")
	w("		b2, err2 := q.IEncode()")
	w("		vAssert(%q, err2 == nil)", lab("C11", "canonical.re-encode-succeeds"))
	w("		if err2 == nil {")
	w("			if len(tlvArea) < 2 {")
	w("				vAssert(%q, vEqBytes(b2, b))", lab("C11", "canonical.re-encode-identical"))
	w("			} else {")
	w("				vAssert(%q, vAnd(len(b2) == len(b), vEqBytes(b2[:vMin(len(fixed), len(b2))], b[:vMin(len(fixed), len(b))])))", lab("C11", "canonical.re-encode-identical-up-to-parameter-order"))
	w("			}")
	w("		}")
	w("	}")
	w("	if prop == 12 {")
	w("		// the encoder's bytes belong to the caller: a later encode (which may get the same pooled buffer) must not change them")
	w("		other := new(%s)", T)
	w("		_, _ = other.IEncode()")
	if l.Hdr != "none" {
		w("		// ... and so must a later encode of the very same value after it was changed")
		w("		p.SetSequenceID(p.GetSequenceID() ^ 0x5a5a5a5a)")
		w("		_, _ = p.IEncode()")
	}
	// (compared with the independently assembled image, not with a copy of b: in the model a released
	// pooled buffer is overwritten at once. The length word is compared with len(b) instead of the
	// image's, so that the one type whose body differs from the specification - SMGP ActiveTestResp -
	// is not reported here as well.)
	skip := 0
	if l.Hdr != "none" {
		skip = 4
	}
	w("		vAssert(%q, vAnd(vAnd(len(b) >= len(fixed), len(b) >= %d), vAnd(%s, vEqBytes(b[%d:vMin(len(fixed), len(b))], fixed[%d:]))))", lab("C12", "encoded-bytes-survive-release-and-later-encode"), skip, map[bool]string{true: "int(vBE32(b)) == len(b)", false: "true"}[skip == 4], skip, skip)
	w("	}")
	w("	vReach(\"end\")")
	w("}")
	w("")

	// ------------------------------------------------------------------ C03: arbitrary bytes
	minLen := 4 * hdrWords(l.Hdr)
	for _, f := range l.Fields {
		switch f.Kind {
		case "fs", "fb", "hex":
			minLen += f.W
		case "cs":
			minLen++
		case "u32x3":
			minLen += 12
		default:
			minLen += intBytes(f.Kind)
		}
	}
	w("func VH_C03_%s() {", T)
	w("	n := vParam(\"n\")")
	w("	data := vBytes(\"in\", n)")
	w("	p := new(%s)", T)
	w("	vConcretizeAlloc(true)")
	w("	vAllocLimit(16*n + 1024)")
	w("	vBudget(400000 + 4000*n, true)")
	for _, kf := range typeKFsC03(l) {
		w("	vKnown(%q, %q, %s)", kf.ID, kf.Pattern, kf.Excuse)
	}
	w("	err := p.IDecode(data)")
	w("	vAllocCheck()")
	w("	vObserveErr(\"err\", err)")
	w("	need := %d", minLen)
	for _, f := range l.Fields {
		switch f.Kind {
		case "cnt8":
			var lw int
			for _, g := range l.Fields {
				if g.Name == f.Ref {
					lw = g.W
				}
			}
			w("	need += %d * int(vGetU(p.%s))", lw, f.Name)
		case "len8", "len32":
			w("	need += int(vGetU(p.%s))", f.Name)
		case "cs":
			w("	need += len(p.%s)", f.Name)
		}
	}
	w("	vAssert(%q, vImplies(err == nil, need <= n))", lab("C03", "short-input-is-an-error"))
	w("	vReach(\"end\")")
	w("}")
	w("")

	// ------------------------------------------------------------------ C11: decode -> encode -> decode
	w("func VH_C11_%s() {", T)
	w("	n := vParam(\"n\")")
	w("	data := vBytes(\"in\", n)")
	w("	p := new(%s)", T)
	w("	vConcretizeAlloc(true)")
	w("	vBudget(400000 + 4000*n, false)")
	for _, kf := range typeKFsC03(l) {
		w("	vKnown(%q, %q, %s)", kf.ID, kf.Pattern, kf.Excuse)
	}
	w("	if err := p.IDecode(data); err != nil { vReach(\"end\"); return }")
	for _, kf := range typeKFsC11(l) {
		w("	vKnown(%q, %q, %s)", kf.ID, kf.Pattern, kf.Excuse)
	}
	w("	vConcretizeAlloc(false)")
	w("	b, err := p.IEncode()")
	w("	vObserve(\"bytes\", b)")
	w("	vAssert(%q, err == nil)", lab("C11", "accepted-input-re-encodes"))
	w("	if err != nil { vReach(\"end\"); return }")
	w("	q := new(%s)", T)
	w("	derr := q.IDecode(b)")
	w("	vAssert(%q, derr == nil)", lab("C11", "re-encoded-bytes-decode"))
	w("	if derr != nil { vReach(\"end\"); return }")
	w("	vStable_%s(p, q)", T)
	w("	vReach(\"end\")")
	w("}")
	w("")
	w("func vStable_%s(p, q *%s) {", T, T)
	switch l.Hdr {
	case "cmpp", "smgp":
		w("	vAssert(%q, vAnd(vGetU(q.Header.CommandID) == vGetU(p.Header.CommandID), q.Header.SequenceID == p.Header.SequenceID))", lab("C11", "stable.Header"))
	case "sgip":
		w("	vAssert(%q, vAnd(vGetU(q.Header.CommandID) == vGetU(p.Header.CommandID), q.Header.Sequence == p.Header.Sequence))", lab("C11", "stable.Header"))
	case "smpp":
		w("	vAssert(%q, vAnd(vAnd(vGetU(q.Header.ID) == vGetU(p.Header.ID), vGetU(q.Header.Status) == vGetU(p.Header.Status)), q.Header.Sequence == p.Header.Sequence))", lab("C11", "stable.Header"))
	}
	for _, f := range l.Fields {
		n := f.Name
		label := lab("C11", "stable."+n)
		switch f.Kind {
		case "u8", "u16", "u32", "u64", "cnt8", "len8", "len32":
			w("	vAssert(%q, vGetU(q.%s) == vGetU(p.%s))", label, n, n)
		case "fs", "fb", "cs", "body", "hex":
			w("	vAssert(%q, q.%s == p.%s)", label, n, n)
		case "bodyb":
			w("	vAssert(%q, vEqBytes(q.%s, p.%s))", label, n, n)
		case "list":
			w("	vAssert(%q, len(q.%s) == len(p.%s))", label, n, n)
			w("	for i := 0; i < len(p.%s) && i < len(q.%s); i++ { vAssert(%q, q.%s[i] == p.%s[i]) }", n, n, label, n, n)
		case "u32x3":
			w("	vAssert(%q, q.%s == p.%s)", label, n, n)
		case "tlvs", "opts":
			w("	vAssert(%q, len(q.%s) == len(p.%s))", label, n, n)
			w("	for k, v := range p.%s { t, ok := q.%s[k]; vAssert(%q, vAnd(ok, vEqBytes(t.Bytes(), v.Bytes()))) }", n, n, label)
		}
	}
	w("}")
	w("")
}

var dispatcherOf = map[string]string{"cmpp20": "DecodeCMPP20", "cmpp30": "DecodeCMPP30", "sgip12": "DecodeSGIP12", "smgp30": "DecodeSMGP30", "smpp34": "DecodeSMPP34"}

func seqOffset(h string) int {
	switch h {
	case "sgip":
		return 16
	case "smpp":
		return 12
	}
	return 8
}

func setCmd(l PDULayout, v string) string {
	if l.Hdr == "smpp" {
		return "vSetU(&p.Header.ID, uint64(" + v + "))"
	}
	return "vSetU(&p.Header.CommandID, uint64(" + v + "))"
}

// genC10 emits the request/response pairing and dispatch-consistency harnesses of one type.
func genC10(l PDULayout, sb *strings.Builder) {
	if l.Hdr == "none" {
		return
	}
	T := l.Type
	w := func(format string, a ...any) { fmt.Fprintf(sb, format+"\n", a...) }
	lab := func(what string) string { return fmt.Sprintf("C10.%s.%s.%s", l.Pkg, T, what) }
	w("func VH_C10_%s() {", T)
	w("	cmd := uint32(vParam(\"cmd\"))")
	w("	p := new(%s)", T)
	w("	tooLong, _, _, _ := vBuild_%s(p, 0, 0, 0, 0, 1, -1)", T)
	w("	vAssume(vNot(tooLong))")
	w("	%s", setCmd(l, "cmd"))
	w("	seq := vU32(\"newseq\")")
	w("	p.SetSequenceID(seq)")
	w("	vAssert(%q, p.GetSequenceID() == seq)", lab("set-then-get-sequence"))
	w("	b, err := p.IEncode()")
	w("	vObserve(\"bytes\", b)")
	w("	vAssert(%q, err == nil)", lab("encode-succeeds"))
	w("	if err != nil || len(b) < %d { vReach(\"end\"); return }", 4*hdrWords(l.Hdr))
	w("	vAssert(%q, vBE32(b[%d:]) == seq)", lab("sequence-at-header-offset"), seqOffset(l.Hdr))
	w("	resp := p.GenEmptyResponse()")
	if l.Resp != "" {
		w("	r, ok := resp.(*%s)", l.Resp)
		w("	vAssert(%q, ok)", lab("response-type"))
		w("	if ok {")
		w("		vAssert(%q, r.GetSequenceID() == seq)", lab("response-carries-sequence"))
		if l.Hdr == "sgip" {
			w("		vAssert(%q, r.Header.Sequence == p.Header.Sequence)", lab("response-carries-all-sequence-words"))
		}
		w("		vAssert(%q, r.GetCommand().ToUint32() == cmd|0x80000000)", lab("response-command-is-request-with-response-bit"))
		w("		rb, rerr := r.IEncode()")
		w("		vAssert(%q, vAnd(rerr == nil, len(rb) >= 8))", lab("response-encodes"))
		w("		if rerr == nil && len(rb) >= 8 { vAssert(%q, vBE32(rb[4:]) == r.GetCommand().ToUint32()) }", lab("response-reports-the-command-it-encodes"))
		w("		vAssert(%q, r.GenEmptyResponse() == nil)", lab("response-generates-none"))
		w("	}")
	} else {
		w("	vAssert(%q, resp == nil)", lab("response-generates-none"))
	}
	w("	vReach(\"end\")")
	w("}")
	w("")
	// dispatcher maps the reference image back to this type
	disp := dispatcherOf[l.Pkg]
	w("func VH_C10_dispatch_%s() {", T)
	w("	cmd := uint32(vParam(\"cmd\"))")
	w("	p := new(%s)", T)
	w("	tooLong, hexraw, tags, tvals := vBuild_%s(p, 0, 0, 0, 0, 1, -1)", T)
	w("	vAssume(vNot(tooLong))")
	w("	%s", setCmd(l, "cmd"))
	w("	img, _ := vImage_%s(p, 0, 0, hexraw, tags, tvals)", T)
	w("	pdu, err := %s(img)", disp)
	w("	vObserveErr(\"err\", err)")
	w("	vAssert(%q, vAnd(err == nil, pdu != nil))", lab("dispatch.decodes"))
	w("	if err != nil || pdu == nil { vReach(\"end\"); return }")
	w("	_, ok := pdu.(*%s)", T)
	w("	vAssert(%q, ok)", lab("dispatch.type"))
	w("	vAssert(%q, pdu.GetCommand().ToUint32() == cmd)", lab("dispatch.reports-the-command-it-was-decoded-from"))
	if l.Pkg == "smgp30" && hasKindW(l, "fb", 10) {
		w("	vKnown(\"KF-smgp-msgid-raw-on-encode-hex-on-decode\", %q, true)", lab("dispatch.re-encodes"))
	}
	w("	b2, err2 := pdu.IEncode()")
	w("	vAssert(%q, vAnd(err2 == nil, len(b2) >= 8))", lab("dispatch.re-encodes"))
	w("	if err2 == nil && len(b2) >= 8 { vAssert(%q, vBE32(b2[4:]) == pdu.GetCommand().ToUint32()) }", lab("dispatch.reports-the-command-it-encodes"))
	w("	vReach(\"end\")")
	w("}")
	w("")
}

// genPkgHarness emits per-package harnesses (dispatcher on arbitrary bytes / unknown ids).
func genPkgHarness(pkg string, ls []PDULayout, sb *strings.Builder) {
	disp, ok := dispatcherOf[pkg]
	if !ok {
		return
	}
	w := func(format string, a ...any) { fmt.Fprintf(sb, format+"\n", a...) }
	w("func VH_C03_dispatch() {")
	w("	n := vParam(\"n\")")
	w("	data := vBytes(\"in\", n)")
	w("	vConcretizeAlloc(true)")
	w("	vAllocLimit(16*n + 1024)")
	w("	vBudget(400000 + 4000*n, true)")
	w("	pdu, err := %s(data)", disp)
	w("	vAllocCheck()")
	w("	vObserveErr(\"err\", err)")
	w("	vAssert(\"C03.%s.dispatch.value-or-error\", (pdu == nil) == (err != nil))", pkg)
	w("	vReach(\"end\")")
	w("}")
	w("")
	w("func VH_C10_dispatch_unknown() {")
	w("	n := vParam(\"n\")")
	w("	data := vBytes(\"in\", n)")
	w("	cmd := vBE32(data[4:])")
	seen := map[uint32]bool{}
	for _, l := range ls {
		if !seen[l.CmdVal] {
			seen[l.CmdVal] = true
			w("	vAssume(cmd != %#x)", l.CmdVal)
		}
	}
	if pkg == "smpp34" {
		for _, c := range []uint32{1, 2, 0x80000001, 0x80000002} {
			w("	vAssume(cmd != %#x)", c)
		}
	}
	w("	pdu, err := %s(data)", disp)
	w("	vObserveErr(\"err\", err)")
	w("	vAssert(\"C10.%s.dispatch.unknown-command-is-unsupported\", vAnd(pdu == nil, errors.Is(err, sms.ErrUnsupportedPacket)))", pkg)
	w("	vReach(\"end\")")
	w("}")
	w("")
}

type typeKF struct {
	ID, Pattern, Excuse string
}

// type-level known findings for the C01/C02 jobs
func typeKFs(l PDULayout) []typeKF {
	return nil
}

// known findings of decoders on arbitrary input (C03, and the decode step of C11)
func typeKFsC03(l PDULayout) []typeKF {
	return nil
}

func typeKFsC11(l PDULayout) []typeKF {
	if l.Pkg == "smgp30" && hasKindW(l, "fb", 10) {
		return []typeKF{{ID: "KF-smgp-msgid-raw-on-encode-hex-on-decode", Pattern: "C11." + l.Pkg + "." + l.Type + ".accepted-input-re-encodes", Excuse: "true"}}
	}
	return nil
}

func hasDispatcher(pkg string) bool { _, ok := dispatcherOf[pkg]; return ok }

// GenerateHarnesses returns generated harness files keyed by package dir.
func GenerateHarnesses() map[string]map[string][]byte {
	byDir := map[string][]PDULayout{}
	for _, l := range Layouts {
		byDir[l.Dir] = append(byDir[l.Dir], l)
	}
	out := map[string]map[string][]byte{}
	dirs := make([]string, 0, len(byDir))
	for d := range byDir {
		dirs = append(dirs, d)
	}
	sort.Strings(dirs)
	for _, d := range dirs {
		ls := byDir[d]
		var sb strings.Builder
		sb.WriteString("//go:build verif\n\n// Code generated by /verif/engine/driver/gen.go from the layout tables; DO NOT EDIT.\n\n")
		fmt.Fprintf(&sb, "package %s\n\n", ls[0].Pkg)
		imps := map[string]bool{}
		for _, l := range ls {
			for _, i := range imports(l) {
				imps[i] = true
			}
		}
		_, hasDisp := dispatcherOf[ls[0].Pkg]
		if len(imps) > 0 || hasDisp {
			sb.WriteString("import (\n")
			if hasDisp {
				sb.WriteString("\t\"errors\"\n\n")
				fmt.Fprintf(&sb, "\tsms %q\n", Module)
			}
			keys := make([]string, 0, len(imps))
			for k := range imps {
				keys = append(keys, k)
			}
			sort.Strings(keys)
			for _, k := range keys {
				fmt.Fprintf(&sb, "\t%q\n", k)
			}
			sb.WriteString(")\n\n")
		}
		sb.WriteString("func init() {\n")
		for _, l := range ls {
			fmt.Fprintf(&sb, "\tvRegister(\"VH_PDU_%s\", VH_PDU_%s)\n\tvRegister(\"VH_C03_%s\", VH_C03_%s)\n\tvRegister(\"VH_C11_%s\", VH_C11_%s)\n", l.Type, l.Type, l.Type, l.Type, l.Type, l.Type)
			if l.Hdr != "none" {
				fmt.Fprintf(&sb, "\tvRegister(\"VH_C10_%s\", VH_C10_%s)\n\tvRegister(\"VH_C10_dispatch_%s\", VH_C10_dispatch_%s)\n", l.Type, l.Type, l.Type, l.Type)
			}
		}
		if hasDispatcher(ls[0].Pkg) {
			sb.WriteString("\tvRegister(\"VH_C03_dispatch\", VH_C03_dispatch)\n\tvRegister(\"VH_C10_dispatch_unknown\", VH_C10_dispatch_unknown)\n")
		}
		sb.WriteString("}\n\n")
		for _, l := range ls {
			genPDU(l, &sb)
			genC10(l, &sb)
		}
		genPkgHarness(ls[0].Pkg, ls, &sb)
		out[d] = map[string][]byte{"gen_pdu.go": []byte(sb.String())}
	}
	return out
}
