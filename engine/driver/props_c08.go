package driver

func init() {
	register(&PropSpec{
		ID: "C08",
		Jobs: func(tier string) []Job {
			var js []Job
			maxN := 24
			if tier == "thorough" {
				maxN = 64
			}
			for n := 0; n <= maxN; n++ {
				js = append(js, Job{Dir: "datacoding/gsm7encoding", Harness: "VH_C08_pack", Params: map[string]int{"n": n}, Weight: n, NoEnd: false})
			}
			maxR := 14
			if tier == "thorough" {
				maxR = 30
			}
			for n := 0; n <= maxR; n++ {
				js = append(js, Job{Dir: "datacoding/gsm7encoding", Harness: "VH_C08_unpack_raw", Params: map[string]int{"n": n}, Weight: n, NoEnd: false})
			}
			js = append(js, Job{Dir: "datacoding/gsm7encoding", Harness: "VH_C08_encode_rune", Weight: 50})
			js = append(js, Job{Dir: "datacoding/gsm7encoding", Harness: "VH_C08_decode_pair", Params: map[string]int{"n": 1}})
			js = append(js, Job{Dir: "datacoding/gsm7encoding", Harness: "VH_C08_decode_pair", Params: map[string]int{"n": 2}, Weight: 40})
			tn := []int{1, 2, 7, 8, 9}
			if tier == "thorough" {
				tn = []int{1, 2, 3, 7, 8, 9, 15, 16, 17}
			}
			for _, n := range tn {
				for packed := 0; packed <= 1; packed++ {
					js = append(js, Job{Dir: "datacoding/gsm7encoding", Harness: "VH_C08_transformers", Params: map[string]int{"n": n, "packed": packed}, Weight: 30 + n})
				}
			}
			dn := []int{1, 7, 8, 9}
			if tier == "thorough" {
				dn = []int{1, 2, 7, 8, 9, 10, 15, 16, 17}
			}
			for _, n := range dn {
				for packed := 0; packed <= 1; packed++ {
					js = append(js, Job{Dir: "datacoding/gsm7encoding", Harness: "VH_C08_decoder_septets", Params: map[string]int{"n": n, "packed": packed}, Weight: 20 + n})
				}
			}
			return js
		},
		Functions: []string{"gsm7encoding.Encode", "gsm7encoding.Decode", "gsm7encoding.Pack", "gsm7encoding.Unpack", "gsm7encoding.ValidateGSM7String", "gsm7encoding.ValidateGSM7Buffer", "gsm7encoding.IsValidGSM7String", "forwardLookup/forwardEscape/reverseLookup/reverseEscape as built by the package's own init"},
		Bounds:    map[string]string{"pack/unpack": "every septet vector of length n, n=0..24 (quick) / 0..64 (thorough)", "alphabet": "one rune over all 0x110000 code points; all 256 single septets and all 256x256 septet pairs", "unpack_raw": "every octet string of length 0..14 (quick) / 0..30 (thorough)"},
		Outside:   []string{"septet vectors longer than the bound", "strings of more than one rune for Encode (covered per-rune; the loop is per-rune independent)"},
	})
}
