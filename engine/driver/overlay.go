// Package driver turns property job lists into engine runs, native replays and evidence.
package driver

import (
	"encoding/json"
	"fmt"
	"os"
	"path/filepath"
	"regexp"
	"sort"
	"strings"
)

// RepoDir / VerifDir can be redirected (VERIF_REPO_DIR, VERIF_DIR) for background runs on
// snapshots; the registered commands always use /repo and /verif.
var RepoDir = "/repo"

const Module = "github.com/hujm2023/go-sms-protocol"

var VerifDir = "/verif"

func init() {
	if d := os.Getenv("VERIF_REPO_DIR"); d != "" {
		RepoDir = d
	}
	if d := os.Getenv("VERIF_DIR"); d != "" {
		VerifDir = d
	}
}

var pkgRe = regexp.MustCompile(`(?m)^package\s+(\w+)`)

// Overlay describes the harness files injected into /repo.
type Overlay struct {
	Files   map[string][]byte // virtual path -> content
	PkgDirs []string          // relative package dirs that have harness files ("" = root)
}

func dirOf(h string) string {
	if h == "_root" {
		return ""
	}
	return h
}

// BuildOverlay collects /verif/harness/** into an overlay. Harness sources are never
// written into /repo.
func BuildOverlay() (*Overlay, error) {
	ov := &Overlay{Files: map[string][]byte{}}
	hroot := filepath.Join(VerifDir, "harness")
	sup, err := os.ReadFile(filepath.Join(hroot, "support", "support.go.tmpl"))
	if err != nil {
		return nil, err
	}
	rep, err := os.ReadFile(filepath.Join(hroot, "support", "replay_test.go.tmpl"))
	if err != nil {
		return nil, err
	}
	var dirs []string
	err = filepath.Walk(hroot, func(p string, info os.FileInfo, err error) error {
		if err != nil {
			return err
		}
		if info.IsDir() || !strings.HasSuffix(p, ".go") {
			return nil
		}
		rel, _ := filepath.Rel(hroot, filepath.Dir(p))
		if rel == "support" {
			return nil
		}
		dirs = append(dirs, rel)
		return nil
	})
	if err != nil {
		return nil, err
	}
	sort.Strings(dirs)
	seen := map[string]bool{}
	for _, d := range dirs {
		if seen[d] {
			continue
		}
		seen[d] = true
		ents, _ := os.ReadDir(filepath.Join(hroot, d))
		pkgName := ""
		rd := dirOf(d)
		for _, e := range ents {
			if e.IsDir() || !strings.HasSuffix(e.Name(), ".go") {
				continue
			}
			b, err := os.ReadFile(filepath.Join(hroot, d, e.Name()))
			if err != nil {
				return nil, err
			}
			if m := pkgRe.FindSubmatch(b); m != nil {
				pkgName = string(m[1])
			}
			ov.Files[filepath.Join(RepoDir, rd, "zz_verif_"+e.Name())] = b
		}
		if pkgName == "" {
			return nil, fmt.Errorf("no package clause in harness dir %s", d)
		}
		if _, err := os.Stat(filepath.Join(RepoDir, rd)); err != nil {
			return nil, fmt.Errorf("harness dir %s has no package in /repo: %v", d, err)
		}
		ov.Files[filepath.Join(RepoDir, rd, "zz_verif_support.go")] = []byte(strings.ReplaceAll(string(sup), "PKGNAME", pkgName))
		ov.Files[filepath.Join(RepoDir, rd, "zz_verif_replay_test.go")] = []byte(strings.ReplaceAll(string(rep), "PKGNAME", pkgName))
		ov.PkgDirs = append(ov.PkgDirs, rd)
	}
	// generated PDU harnesses (from the layout tables)
	for d, files := range GenerateHarnesses() {
		pkgName := ""
		for name, b := range files {
			ov.Files[filepath.Join(RepoDir, d, "zz_verif_"+name)] = b
			if m := pkgRe.FindSubmatch(b); m != nil {
				pkgName = string(m[1])
			}
		}
		if !seen[d] {
			seen[d] = true
			ov.Files[filepath.Join(RepoDir, d, "zz_verif_support.go")] = []byte(strings.ReplaceAll(string(sup), "PKGNAME", pkgName))
			ov.Files[filepath.Join(RepoDir, d, "zz_verif_replay_test.go")] = []byte(strings.ReplaceAll(string(rep), "PKGNAME", pkgName))
			ov.PkgDirs = append(ov.PkgDirs, d)
		}
	}
	return ov, nil
}

// EngineFiles returns the overlay without _test files (for go/packages).
func (o *Overlay) EngineFiles() map[string][]byte {
	m := map[string][]byte{}
	for k, v := range o.Files {
		if strings.HasSuffix(k, "_test.go") {
			continue
		}
		m[k] = v
	}
	return m
}

// WriteForGoTest materialises the overlay under dir and returns the path of the
// -overlay JSON file.
func (o *Overlay) WriteForGoTest(dir string) (string, error) {
	repl := map[string]string{}
	i := 0
	for k, v := range o.Files {
		i++
		real := filepath.Join(dir, fmt.Sprintf("f%03d_%s", i, filepath.Base(k)))
		if err := os.WriteFile(real, v, 0o644); err != nil {
			return "", err
		}
		repl[k] = real
	}
	b, _ := json.Marshal(map[string]any{"Replace": repl})
	p := filepath.Join(dir, "overlay.json")
	return p, os.WriteFile(p, b, 0o644)
}

func PkgPath(dir string) string {
	if dir == "" {
		return Module
	}
	return Module + "/" + dir
}
