package driver

import "fmt"

func hasK(l PDULayout, kinds ...string) bool {
	for _, k := range kinds {
		if hasKind(l, k) {
			return true
		}
	}
	return false
}

type pduParams struct{ cnt, blen, ntlv, tlen, cslen, csbig int }

func (p pduParams) m(prop int) map[string]int {
	return map[string]int{"prop": prop, "cnt": p.cnt, "blen": p.blen, "ntlv": p.ntlv, "tlen": p.tlen, "cslen": p.cslen, "csbig": p.csbig}
}

// pduParamSets enumerates the concrete shape parameters of a PDU type (list count, body
// length, number/size of optional parameters, C-string lengths); everything else is symbolic.
func pduParamSets(l PDULayout, tier string, extraCounts bool) []pduParams {
	base := pduParams{cnt: 0, blen: 0, ntlv: 0, tlen: 0, cslen: 1, csbig: -1}
	if hasK(l, "list") {
		base.cnt = 1
	}
	if hasK(l, "body", "bodyb") {
		base.blen = 2
	}
	seen := map[pduParams]bool{}
	var out []pduParams
	add := func(p pduParams) {
		if !seen[p] {
			seen[p] = true
			out = append(out, p)
		}
	}
	add(base)
	if hasK(l, "list") {
		// 13 = first count at which 21*count wraps in 8 bits. Larger counts (up to 255, the largest the
		// one-octet field carries) cost minutes per job and are in the thorough tier only
		cs := []int{0, 2, 13}
		if extraCounts {
			cs = append(cs, 12)
		}
		if tier == "thorough" {
			cs = append(cs, 3, 4, 5, 12, 14, 50, 99, 100, 101, 128, 255)
		}
		for _, c := range cs {
			p := base
			p.cnt = c
			add(p)
		}
	}
	if hasK(l, "body", "bodyb") {
		bs := []int{0, 1, 140, 255}
		if tier == "thorough" {
			bs = append(bs, 3, 7, 8, 70, 127, 128, 139, 141, 159, 160, 161, 254)
			if hasK(l, "len32") {
				bs = append(bs, 256, 300)
			}
		}
		for _, b := range bs {
			p := base
			p.blen = b
			add(p)
		}
	}
	if hasK(l, "tlvs", "opts") {
		for _, nt := range []int{1, 2} {
			for _, tl := range []int{0, 3} {
				p := base
				p.ntlv, p.tlen = nt, tl
				add(p)
			}
		}
		if tier == "thorough" {
			for _, tl := range []int{1, 255, 256} {
				p := base
				p.ntlv, p.tlen = 1, tl
				add(p)
			}
		}
	}
	ncs := len(csFields(l))
	if ncs > 0 {
		for _, c := range []int{0, 3} {
			p := base
			p.cslen = c
			add(p)
		}
		for i := 0; i < ncs; i++ {
			p := base
			p.csbig = i
			add(p)
		}
	}
	return out
}

func pduJobs(prop int, harnessPrefix string, tier string) []Job {
	var js []Job
	for _, l := range Layouts {
		for _, ps := range pduParamSets(l, tier, prop == 2) {
			js = append(js, Job{Dir: l.Dir, Harness: harnessPrefix + l.Type, Params: ps.m(prop),
				Name:   fmt.Sprintf("%s.%s_cnt%d_blen%d_ntlv%d_tlen%d_cs%d_big%d", l.Pkg, l.Type, ps.cnt, ps.blen, ps.ntlv, ps.tlen, ps.cslen, ps.csbig),
				Weight: len(l.Fields) + ps.cnt*3 + ps.blen/10 + ps.ntlv*5})
		}
	}
	return js
}

var pduFunctions = []string{"IEncode/IDecode of all 57 PDU types + cmpp.SubPduDeliveryContent", "packet.Writer/Reader (all primitives)", "cmpp/sgip/smgp/smpp header readers and writers", "smpp.TLVs.Bytes/SetTLV/ReadTLVs1, smpp.TLV.Bytes", "smgp.Options.Serialize/Add, ParseOptions, ReadOptions", "encoding/hex (real SSA)", "bytes.Buffer, bytebufferpool.ByteBuffer (real SSA)"}

var pduStubs = []string{"encoding/binary.Read/Write: type-directed model over io.ReadFull / Writer.Write", "bytes.IndexByte: first-match ite chain", "strings.Join: symbolic concatenation", "bytebufferpool.Get/Put, sync.Pool: fresh object (C12: arbitrary stale content, havoc on Put)", "fmt.Errorf/errors.New: fresh error objects"}

func init() {
	register(&PropSpec{
		ID:        "C01",
		Jobs:      func(tier string) []Job { return pduJobs(1, "VH_PDU_", tier) },
		Functions: pduFunctions,
		Stubs:     pduStubs,
		Bounds: map[string]string{
			"integers":            "every integer field over its full width (symbolic), including command id, sequence words and the struct's own length field",
			"fixed-width text":    "symbolic length 0..w+1 and content (no NUL); lengths > w must be refused",
			"binary fields":       "16-octet authenticators / 10-octet ids: all octet values",
			"list counts":         "quick {0,1,2,13}; thorough adds {3,4,5,12,13,14,50,99,100,255} (entries beyond the second at exactly slot width)",
			"body lengths":        "quick {0,1,2,140,255}; thorough adds {3,7,8,70,127,128,139,141,159,160,161,254} and SGIP {256,300}",
			"optional parameters": "0..2 parameters, distinct symbolic tags, value lengths {0,3} (thorough: one value of 1/255/256 octets); both serialisation orders accepted",
			"SMPP C-strings":      "all at length 0, 1 or 3, and each one alone at its maximum length",
		},
		Outside: []string{"bodies longer than 300 octets", "more than 2 optional parameters, values longer than 256 octets (C16 covers the 16-bit boundary)", "SMPP C-string length combinations other than the listed ones"},
	})
	register(&PropSpec{
		ID:        "C02",
		Jobs:      func(tier string) []Job { return pduJobs(2, "VH_PDU_", tier) },
		Functions: pduFunctions,
		Stubs:     pduStubs,
		Bounds: map[string]string{
			"oracle":       "reference image assembled from /verif/engine/driver/layouts.go (transcribed from the specifications in /repo/doc), compared octet-for-octet; the reference image is also decoded and compared field-wise",
			"list counts":  "quick {0,1,2,12,13}; thorough adds {3,4,5,14,50,99,100,255}",
			"body lengths": "as C01",
			"values":       "as C01 (all symbolic)",
		},
		Outside: []string{"semantic value constraints of the specifications (only layout is checked)", "as C01"},
	})
}

func init() {
	register(&PropSpec{
		ID: "C12",
		Jobs: func(tier string) []Job {
			js := pduJobs(12, "VH_PDU_", tier)
			js = append(js, extraC12Jobs(tier)...)
			return js
		},
		Functions: append(pduFunctions, "codec.CMPPCodec/SMPPCodec.Decode (zero-copy frame) + decoders"),
		Stubs:     pduStubs,
		Bounds: map[string]string{
			"step":        "one encode / decode step from an arbitrary pool state: bytebufferpool.Get returns a buffer with arbitrary stale content (8 octets of capacity, then growth), Put havocs the released backing array (any later holder may write anything)",
			"input reuse": "after IDecode the whole input buffer is overwritten with fresh symbolic octets (the most hostile caller) and every decoded field is compared with the original value",
			"shapes":      "as C01",
		},
		Outside:     []string{"String() results (formatting is opaque)", "true concurrent reuse (see C13)"},
		Assumptions: []string{"one step covers all histories: a later call can reach an earlier result only through the input buffer (havocked) or a pooled buffer (havocked at Put); results are shown independent of both"},
	})
}
