package driver

import "fmt"

func c11Sizes(l PDULayout, tier string) []int {
	m := layoutMinLen(l)
	set := map[int]bool{m: true, m + 1: true}
	if w := listWidth(l); w > 0 && tier == "thorough" {
		set[m+w] = true
	}
	if hasK(l, "body", "bodyb") {
		set[m+2] = true
	}
	if hasK(l, "tlvs", "opts") {
		set[m+4] = true
		set[m+6] = true
	}
	if tier == "thorough" {
		for d := 0; d <= 9; d++ {
			set[m+d] = true
		}
		if w := listWidth(l); w > 0 {
			set[m+w+2] = true
			set[m+2*w] = true
		}
	}
	var r []int
	for n := range set {
		r = append(r, n)
	}
	return r
}

func c11Jobs(tier string) []Job {
	js := pduJobs(11, "VH_PDU_", tier)
	for i := range js {
		js[i].Name = "canon." + js[i].Name
	}
	for _, l := range Layouts {
		for _, n := range c11Sizes(l, tier) {
			js = append(js, Job{Dir: l.Dir, Harness: "VH_C11_" + l.Type, Params: map[string]int{"n": n},
				Name: fmt.Sprintf("stable.%s.%s_n%d", l.Pkg, l.Type, n), Weight: n + 100*len(csFields(l)), MaxPaths: 40000})
		}
	}
	return js
}

func init() {
	register(&PropSpec{
		ID:        "C11",
		Jobs:      c11Jobs,
		Functions: pduFunctions,
		Stubs:     pduStubs,
		Bounds: map[string]string{
			"stable":    "every octet string of length N accepted by IDecode (all N octets symbolic) must re-encode, and decoding the re-encoded bytes must give the same PDU; N in {min, min+1, min+2 body octets, min+4/+6 for optional parameters} (thorough: min..min+9, one and two list entries; the list-entry sizes multiply accepted shapes and may be reported inconclusive)",
			"canonical": "all canonical images of the C01 jobs (same symbolic PDUs and shape parameters) re-encode bit-for-bit; two optional parameters are compared up to their order",
		},
		Outside: []string{"accepted inputs longer than the bound", "optional values of 65532+ octets (covered by C16's size jobs)"},
	})
}
