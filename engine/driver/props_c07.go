package driver

func c07Jobs(tier string) []Job {
	var js []Job
	for n := 0; n <= 10; n++ {
		js = append(js, Job{Dir: "", Harness: "VH_C07_parse", Params: map[string]int{"n": n}})
	}
	ts := []int{1, 133, 134, 135, 141, 267, 268, 269, 402, 403}
	if tier == "thorough" {
		ts = nil
		for k := 1; k <= 12; k++ {
			for d := -2; d <= 2; d++ {
				ts = append(ts, k*134+d)
			}
		}
	}
	for _, t := range ts {
		js = append(js, Job{Dir: "", Harness: "VH_C07_split_generic", Params: map[string]int{"T": t, "per": 134}, Weight: t})
	}
	ts153 := []int{152, 153, 154, 161, 306, 307}
	if tier == "thorough" {
		ts153 = nil
		for k := 1; k <= 8; k++ {
			for d := -1; d <= 1; d++ {
				ts153 = append(ts153, k*153+d)
			}
		}
	}
	for _, t := range ts153 {
		js = append(js, Job{Dir: "", Harness: "VH_C07_split_generic", Params: map[string]int{"T": t, "per": 153}, Weight: t})
	}
	// counters around 255/256 parts
	for _, t := range []int{255 * 134, 255*134 + 1, 256 * 134, 300 * 134} {
		for smpp := 0; smpp <= 1; smpp++ {
			js = append(js, Job{Dir: "", Harness: "VH_C07_split_count", Params: map[string]int{"T": t, "smpp": smpp}, Weight: 1000, MaxSteps: 20000000})
		}
	}
	return js
}

func init() {
	register(&PropSpec{
		ID:        "C07",
		Jobs:      c07Jobs,
		Functions: []string{"ParseLongSmsContent", "splitWithUDHI", "ceil", "EncodeCMPPContentAndSplit", "EncodeSMPPContentAndSplit", "datacoding.Ascii.Encode"},
		Bounds:    map[string]string{"parser": "every string of length 0..10 (all header octets symbolic)", "generic splitter": "every octet stream of length T, T around multiples of 134 up to 3 parts (quick) / 12 parts (thorough) and of 153; reference octet symbolic", "counters": "entry points EncodeCMPPContentAndSplit/EncodeSMPPContentAndSplit with T = 255*134, 255*134+1, 256*134, 300*134 octets of concrete ASCII content, reference symbolic"},
		Outside:   []string{"streams longer than the bound with symbolic content", "the packed GSM-7 splitter's sizes are checked under C06/C14 jobs"},
	})
}
