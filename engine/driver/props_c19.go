package driver

import (
	"os"
	"time"
)

func init() {
	register(&PropSpec{
		ID: "C19",
		Jobs: func(tier string) []Job {
			var js []Job
			for neg := 0; neg <= 1; neg++ {
				js = append(js, Job{Dir: "smpp", Harness: "VH_C19_relative", Params: map[string]int{"durneg": neg, "whole": 1}, Timeout: 15 * time.Minute})
				js = append(js, Job{Dir: "smpp", Harness: "VH_C19_relative", Params: map[string]int{"durneg": neg, "whole": 0}, Timeout: 15 * time.Minute})
				js = append(js, Job{Dir: "smpp", Harness: "VH_C19_absolute", Params: map[string]int{"durneg": neg, "whole": 0}})
			}
			js = append(js, Job{Dir: "smpp", Harness: "VH_C19_relative_fn", Params: map[string]int{"whole": 1}, Timeout: 15 * time.Minute})
			js = append(js, Job{Dir: "smpp", Harness: "VH_C19_relative_fn", Params: map[string]int{"whole": 0}, Timeout: 15 * time.Minute})
			// the float64 contract on the real time SSA (cvc5: z3 does not finish these)
			for which := 0; which < 7; which++ {
				md := 31
				if which >= 2 && which != 6 {
					md = 1
				}
				js = append(js, Job{Dir: "smpp", Harness: "VH_C19_lemma", Params: map[string]int{"which": which, "whole": 1, "maxdays": md}, Solver: "cvc5", Timeout: 20 * time.Minute, Weight: 100})
				if tier == "thorough" && (which == 0 || which == 1 || which == 6) {
					// every nanosecond count below 31 days: Hours, Hours/24 and the range clauses of Hours (each decided by
					// cvc5 in 20..90 s). The Minutes/Seconds clauses with a sub-second rest are not decided below 31 days
					// (unknown after 25 minutes per obligation); below one day see the next block.
					js = append(js, Job{Dir: "smpp", Harness: "VH_C19_lemma", Params: map[string]int{"which": which, "whole": 0, "maxdays": 31}, Solver: "cvc5", Timeout: 40 * time.Minute, Weight: 200})
				}
				if tier == "thorough" && (which == 2 || which == 3 || which == 5 || (which == 4 && os.Getenv("VERIF_C19_TRY") != "")) {
					// Minutes / Seconds with a sub-second rest, below one day: 1 to 15 minutes of cvc5 each. The range clauses
					// of Seconds (which 4) did not finish and are not registered.
					js = append(js, Job{Dir: "smpp", Harness: "VH_C19_lemma", Params: map[string]int{"which": which, "whole": 0, "maxdays": 1}, Solver: "cvc5", Timeout: 40 * time.Minute, Weight: 200})
				}
			}
			return js
		},
		Functions: []string{"smpp.ToValidatePeriod, timeToSMPPTimeFormatRelative, timeToSMPPTimeFormatAbsolute", "time.Duration.Hours/Minutes/Seconds: real SSA with float64 in the SMT floating-point theory (RNE arithmetic, RTZ conversion) in the lemma jobs, decided by cvc5; in the formatter jobs replaced by the integer contract those lemmas prove (contract_proved_by: VH_C19_lemma)"},
		Stubs:     []string{"time.ParseDuration: returns the symbolic duration `dur` or an error (symbolic flag)", "time.Time: abstract instant (integer nanoseconds); Add/Before exact; calendar fields arbitrary within range per instant; Format(layout) renders those fields", "fmt.Sprintf %02d: digit variables"},
		Bounds: map[string]string{
			"duration": "ToValidatePeriod (relative) and formatter jobs: every nanosecond count 0..2^32 s (136 years; whole=1 jobs: whole seconds, whole=0 jobs: dursecs*1e9 + durfrac mod 1e9) and every negative one, under the float contract; absolute form: every nanosecond count of that range. Contract = int(d.Hours())==d/Hour, int(d.Hours()/24)==d/24h, int(d.Minutes())==d/Minute, int(d.Seconds())==d/Second, and for each accessor q <= f < q+1 and (f >= q+0.5 <=> remainder >= half a unit): proved on the real time SSA (FP theory, cvc5) for whole-second durations below 31 days (Hours, Hours/24, Hours range) and below 1 day (Minutes, Seconds and their range clauses); thorough adds every nanosecond count below 31 days for the three Hours clauses and below 1 day for int(Minutes), int(Seconds) and the Minutes range clauses. The Seconds range clauses (q <= f < q+1, half) with a sub-second rest are assumed, not proved (cvc5: unknown); beyond the proved range only counterexamples are trusted (each is replayed natively)",
			"instant":  "arbitrary",
		},
		Outside: []string{"time.Format / ParseDuration themselves", "time zones (UTC only, as the statement)"},
	})
}
