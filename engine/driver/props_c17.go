package driver

import "time"

func init() {
	register(&PropSpec{
		ID: "C17",
		Jobs: func(tier string) []Job {
			return []Job{
				{Dir: "cmpp", Harness: "VH_C17_compose"},
				{Dir: "cmpp", Harness: "VH_C17_splitcombine"},
				{Dir: "cmpp", Harness: "VH_C17_string", Timeout: 10 * time.Minute},
			}
		},
		Functions: []string{"cmpp.CombineMsgID", "cmpp.SplitMsgID", "cmpp.MsgID2String", "cmpp.MsgIDString2Uint64"},
		Stubs:     []string{"fmt.Sprintf %0Nd: digit variables d_i in 0..9 with sum d_i*10^i == value", "fmt.Sscanf: model for formats of %Nd verbs on all-digit input (each verb takes up to N digits, trailing input ignored); other inputs/formats are reported as not encodable"},
		Bounds:    map[string]string{"ids": "all 2^64 (bit-vector width is the only bound)", "fields": "all in-range tuples (month<=15, day<=31, hour<=31, minute<=63, second<=63, gateway<2^22, sequence<2^16)"},
		Outside:   []string{"32-bit platforms", "MsgIDString2Uint64 on strings that MsgID2String does not produce (signs, spaces, non-digits)", "fmt.Sscanf / fmt.Sprintf themselves (modelled)"},
	})
}
