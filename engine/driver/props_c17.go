package driver

func init() {
	register(&PropSpec{
		ID: "C17",
		Jobs: func(tier string) []Job {
			return []Job{
				{Dir: "cmpp", Harness: "VH_C17_compose"},
				{Dir: "cmpp", Harness: "VH_C17_splitcombine"},
			}
		},
		Functions: []string{"cmpp.CombineMsgID", "cmpp.SplitMsgID"},
		Bounds:    map[string]string{"ids": "all 2^64 (bit-vector width is the only bound)", "fields": "all in-range tuples (month<=15, day<=31, hour<=31, minute<=63, second<=63, gateway<2^22, sequence<2^16)"},
		Outside:   []string{"32-bit platforms"},
	})
}
