package driver

func init() {
	register(&PropSpec{
		ID: "C15",
		Jobs: func(tier string) []Job {
			ms := 4
			if tier == "thorough" {
				ms = 8
			}
			p := map[string]int{"maxsecret": ms, "fixsecret": 0}
			var long []Job
			// long secrets (a fixed length each, content symbolic): around 15/16 and the SMGP/CMPP practical maximum
			fix := []int{15, 16, 32}
			if tier == "thorough" {
				fix = []int{9, 12, 15, 16, 17, 24, 32, 64}
			}
			for _, n := range fix {
				q := map[string]int{"maxsecret": ms, "fixsecret": n}
				long = append(long,
					Job{Dir: "cmpp/cmpp20", Harness: "VH_C15_connect", Params: q, MaxPaths: 4000},
					Job{Dir: "cmpp/cmpp20", Harness: "VH_C15_connect_resp", Params: q, MaxPaths: 4000},
					Job{Dir: "cmpp/cmpp30", Harness: "VH_C15_connect", Params: q, MaxPaths: 4000},
					Job{Dir: "cmpp/cmpp30", Harness: "VH_C15_connect_resp", Params: q, MaxPaths: 4000},
					Job{Dir: "smgp/smgp30", Harness: "VH_C15_login", Params: q, MaxPaths: 4000},
					Job{Dir: "smgp/smgp30", Harness: "VH_C15_newlogin", Params: q, MaxPaths: 4000})
			}
			return append(long, []Job{
				{Dir: "cmpp/cmpp20", Harness: "VH_C15_connect", Params: p, MaxPaths: 4000},
				{Dir: "cmpp/cmpp20", Harness: "VH_C15_connect_resp", Params: p, MaxPaths: 4000},
				{Dir: "cmpp/cmpp20", Harness: "VH_C15_newconnect", Params: p, MaxPaths: 4000},
				{Dir: "cmpp/cmpp30", Harness: "VH_C15_connect", Params: p, MaxPaths: 4000},
				{Dir: "cmpp/cmpp30", Harness: "VH_C15_connect_resp", Params: p, MaxPaths: 4000},
				{Dir: "smgp/smgp30", Harness: "VH_C15_login", Params: p, MaxPaths: 4000},
				{Dir: "smgp/smgp30", Harness: "VH_C15_newlogin", Params: p, MaxPaths: 4000},
				{Dir: "smgp/smgp30", Harness: "VH_C15_login_resp", Params: p},
			}...)
		},
		Functions: []string{"cmpp.GenConnectAuth, GenConnectRespAuthISMG, TimeStamp2Str", "cmpp20.NewConnect, now", "smgp30.NewLogin, genTimestamp, genAuthenticatorClient", "IEncode/IDecode of cmpp20/cmpp30 connect(+resp), smgp30 login(+resp)"},
		Stubs:     []string{"crypto/md5 (Sum, New/Write/Sum): uninterpreted function - fresh 16 octets per argument vector with congruence constraints; every digest value is possible, which is the quantifier the property wants", "fmt.Sprintf(\"%010d\"): digit variables d_i in [0,9] with sum d_i*10^i == value", "time.Now / Format / Month..Second: arbitrary instant with calendar fields in their documented ranges", "strconv.Atoi: digit-string to integer"},
		Bounds: map[string]string{
			"accounts":   "all accounts of 0..6 (CMPP) / 0..8 (SMGP) non-NUL octets, symbolic",
			"secrets":    "all secrets of 0..4 octets (quick) / 0..8 (thorough), symbolic, plus all secrets of exactly 15, 16, 32 octets (thorough: 9, 12, 15, 16, 17, 24, 32, 64)",
			"timestamps": "all values 0..1231235959; status all values",
			"digests":    "all 2^128 values (uninterpreted MD5)",
		},
		Outside: []string{"that crypto/md5 computes MD5", "secret lengths other than those listed"},
	})
}
