package driver

import (
	"bytes"
	"encoding/json"
	"fmt"
	"os"
	"os/exec"
	"path/filepath"
	"time"
)

type NativeCase struct {
	ID        string            `json:"id"`
	Harness   string            `json:"harness"`
	Params    map[string]int    `json:"params"`
	Model     map[string]uint64 `json:"model"`
	TimeoutMs int               `json:"timeout_ms"`
	Dir       string            `json:"-"`
}

type NativeResult struct {
	ID       string      `json:"id"`
	Failed   []string    `json:"failed"`
	Panic    string      `json:"panic"`
	Assume   bool        `json:"assume_failed"`
	Timeout  bool        `json:"timeout"`
	Observed [][2]string `json:"observed"`
	Reached  []string    `json:"reached"`
	Missing  bool        `json:"missing"`
}

// RunNative replays the cases against the real build (go test -overlay), grouped by package.
func RunNative(ov *Overlay, cases []NativeCase, race bool) (map[string]*NativeResult, error) {
	out := map[string]*NativeResult{}
	if len(cases) == 0 {
		return out, nil
	}
	tmp, err := os.MkdirTemp("", "vcheck-native-")
	if err != nil {
		return nil, err
	}
	defer os.RemoveAll(tmp)
	ovPath, err := ov.WriteForGoTest(tmp)
	if err != nil {
		return nil, err
	}
	byDir := map[string][]NativeCase{}
	for _, c := range cases {
		byDir[c.Dir] = append(byDir[c.Dir], c)
	}
	for dir, cs := range byDir {
		remaining := cs
		for round := 0; len(remaining) > 0 && round < 50; round++ {
			in := filepath.Join(tmp, "in.json")
			outp := filepath.Join(tmp, "out.json")
			os.Remove(outp)
			b, _ := json.Marshal(remaining)
			if err := os.WriteFile(in, b, 0o644); err != nil {
				return nil, err
			}
			args := []string{"test", "-tags", "verif", "-overlay", ovPath, "-vet=off", "-count=1", "-ldflags=-checklinkname=0", "-run", "^TestVerifReplay$", "-timeout", "20m"}
			if race {
				args = append(args, "-race")
			}
			args = append(args, "./"+dir)
			cmd := exec.Command("go", args...)
			cmd.Dir = RepoDir
			cmd.Env = append(os.Environ(), "GOFLAGS=-mod=mod", "GOPROXY=off", "GOSUMDB=off", "GOTOOLCHAIN=local",
				"VERIF_REPLAY_IN="+in, "VERIF_REPLAY_OUT="+outp)
			var buf bytes.Buffer
			cmd.Stdout, cmd.Stderr = &buf, &buf
			t0 := time.Now()
			runErr := cmd.Run()
			_ = t0
			rb, err := os.ReadFile(outp)
			if err != nil {
				return nil, fmt.Errorf("native replay in %s produced no output (%v):\n%s", dir, runErr, tail(buf.String(), 3000))
			}
			var rs []NativeResult
			if err := json.Unmarshal(rb, &rs); err != nil {
				return nil, err
			}
			for i := range rs {
				out[rs[i].ID] = &rs[i]
			}
			if len(rs) >= len(remaining) {
				break
			}
			if len(rs) == 0 {
				return nil, fmt.Errorf("native replay made no progress in %s:\n%s", dir, tail(buf.String(), 3000))
			}
			remaining = remaining[len(rs):]
		}
	}
	return out, nil
}

func tail(s string, n int) string {
	if len(s) <= n {
		return s
	}
	return s[len(s)-n:]
}
