package driver

func init() {
	register(&PropSpec{
		ID: "C20",
		Jobs: func(tier string) []Job {
			var js []Job
			ks := []int{0, 3}
			ns := []int{0, 1, 5}
			if tier == "thorough" {
				ks = []int{0, 1, 3, 8, 16}
				ns = []int{0, 1, 2, 5, 8, 16}
			}
			for op := 0; op <= 9; op++ {
				for _, k := range ks {
					for errored := 0; errored <= 1; errored++ {
						nn := ns
						if op < 4 {
							nn = []int{0}
						}
						for _, n := range nn {
							js = append(js, Job{Dir: "packet", Harness: "VH_C20_writer", Params: map[string]int{"op": op, "k": k, "errored": errored, "n": n}})
						}
					}
				}
			}
			haves := []int{0, 1, 3, 6}
			if tier == "thorough" {
				haves = []int{0, 1, 2, 3, 4, 6, 7, 8, 9, 16}
			}
			for op := 0; op <= 8; op++ {
				for _, have := range haves {
					for errored := 0; errored <= 1; errored++ {
						nn := []int{0, 1, 4}
						if tier == "thorough" {
							nn = []int{0, 1, 2, 4, 8, 17}
						}
						if op < 4 || op == 7 {
							nn = []int{0}
						}
						for _, n := range nn {
							js = append(js, Job{Dir: "packet", Harness: "VH_C20_reader_short", Params: map[string]int{"op": op, "have": have, "n": n, "errored": errored}})
						}
					}
				}
			}
			js = append(js, Job{Dir: "packet", Harness: "VH_C20_sequence"})
			return js
		},
		Functions: []string{"packet.Writer.{WriteUint8,WriteUint16,WriteUint32,WriteUint64,WriteBytes,WriteString,WriteCString,WriteFixedLenString,Bytes,BytesWithLength,Written,Len,Error,Release}", "packet.Reader.{ReadUint8..64,ReadBytes,ReadNBytes,ReadCStringN,ReadCStringNWithoutTrim,ReadCString,Bytes,Remaining,Error}", "bytes.Buffer (real SSA)", "bytebufferpool.ByteBuffer (real SSA)", "io.ReadFull (real SSA)"},
		Bounds:    map[string]string{"writer": "one primitive from a writer holding k in {0,3} (quick) / {0,1,3,8,16} arbitrary octets, valid or errored; size parameter n in {0,1,5} / {0..16}; all argument values", "reader": "one primitive against every input of `have` octets, have in {0,1,3,6} / up to 16; valid or errored"},
		Stubs:     []string{"encoding/binary.Read/Write: type-directed model over io.ReadFull / Writer.Write", "bytes.IndexByte: first-match ite chain", "strings.Join: symbolic concatenation", "bytebufferpool.Get/Put: fresh buffer"},
		Outside:   []string{"operation sequences are covered by one-step induction on the invariant written == buf.Len() plus one 3-step script, not enumerated", "buffers longer than the bound"},
	})
}
