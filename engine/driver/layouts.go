package driver

// Wire layouts of the 57 PDU types (+ the CMPP status-report body), transcribed from the
// protocol specifications in /repo/doc (SMPP v3.4 Issue 1.2 ch. 4; CMPP 2.0 / 3.0 ch. 7-8;
// SGIP 1.2 ch. 4; SMGP 3.0.3 ch. 7) - field order, widths and types come from the
// specification tables, NOT from the library's encoders. Go field names are the library's
// (a renamed field makes the generated harness fail to compile, which is reported as BROKEN).
//
// Kinds:
//   u8 u16 u32 u64      big-endian unsigned integer
//   fs W                fixed-width text slot, NUL padded (Octet String of W octets)
//   fb W                fixed-width binary slot of exactly W octets (digests, SMGP MsgID)
//   hex W               W binary octets on the wire, held as 2W lowercase hex digits in the struct
//   cs MAX              C-Octet String (NUL terminated), MAX includes the terminator
//   cnt8 -> list        one-octet repeat count of field Ref
//   list W              Ref-counted list of fs W
//   len8/len32 -> body  length field of body Ref
//   body / bodyb        message body (string / []byte), all octet values
//   u32x3               three 32-bit words
//   tlvs / opts         SMPP optional parameters / SMGP options (tag 2, length 2, value)

type Fld struct {
	Name string
	Kind string
	W    int
	Ref  string
}

type PDULayout struct {
	Dir      string // package dir
	Pkg      string // package name
	Type     string
	Hdr      string // cmpp | smgp | sgip | smpp | none
	Cmd      string // Go expression of the command id constant
	CmdVal   uint32 // command id from the specification
	Resp     string // response type ("" = this is a response or has none)
	RespCmd  string
	Fields   []Fld
	InDispatcher bool
}

func f(name, kind string, w ...int) Fld {
	fl := Fld{Name: name, Kind: kind}
	if len(w) > 0 {
		fl.W = w[0]
	}
	return fl
}
func fr(name, kind, ref string) Fld { return Fld{Name: name, Kind: kind, Ref: ref} }

var cmppSubmit20 = []Fld{
	f("MsgID", "u64"), f("PkTotal", "u8"), f("PkNumber", "u8"), f("RegisteredDelivery", "u8"), f("MsgLevel", "u8"),
	f("ServiceID", "fs", 10), f("FeeUserType", "u8"), f("FeeTerminalID", "fs", 21), f("TpPID", "u8"), f("TpUDHI", "u8"), f("MsgFmt", "u8"),
	f("MsgSrc", "fs", 6), f("FeeType", "fs", 2), f("FeeCode", "fs", 6), f("ValIDTime", "fs", 17), f("AtTime", "fs", 17), f("SrcID", "fs", 21),
	fr("DestUsrTL", "cnt8", "DestTerminalID"), f("DestTerminalID", "list", 21), fr("MsgLength", "len8", "MsgContent"), f("MsgContent", "body"), f("Reserve", "fs", 8),
}

var cmppSubmit30 = []Fld{
	f("MsgID", "u64"), f("PkTotal", "u8"), f("PkNumber", "u8"), f("RegisteredDelivery", "u8"), f("MsgLevel", "u8"),
	f("ServiceID", "fs", 10), f("FeeUserType", "u8"), f("FeeTerminalID", "fs", 32), f("FeeTerminalType", "u8"), f("TpPID", "u8"), f("TpUDHI", "u8"), f("MsgFmt", "u8"),
	f("MsgSrc", "fs", 6), f("FeeType", "fs", 2), f("FeeCode", "fs", 6), f("ValiDTime", "fs", 17), f("AtTime", "fs", 17), f("SrcID", "fs", 21),
	fr("DestUsrTL", "cnt8", "DestTerminalID"), f("DestTerminalID", "list", 32), f("DestTerminalType", "u8"), fr("MsgLength", "len8", "MsgContent"), f("MsgContent", "body"), f("LinkID", "fs", 20),
}

var cmppQueryResp = []Fld{
	f("Time", "fs", 8), f("QueryType", "u8"), f("QueryCode", "fs", 10),
	f("MtTLMsg", "u32"), f("MtTlUsr", "u32"), f("MtScs", "u32"), f("MtWT", "u32"), f("MtFL", "u32"), f("MoScs", "u32"), f("MoWT", "u32"), f("MoFL", "u32"),
}

var smppSm = []Fld{
	f("ServiceType", "cs", 6), f("SourceAddrTon", "u8"), f("SourceAddrNpi", "u8"), f("SourceAddr", "cs", 21),
	f("DestAddrTon", "u8"), f("DestAddrNpi", "u8"), f("DestinationAddr", "cs", 21), f("ESMClass", "u8"), f("ProtocolID", "u8"), f("PriorityFlag", "u8"),
	f("ScheduleDeliveryTime", "cs", 17), f("ValidityPeriod", "cs", 17), f("RegisteredDelivery", "u8"), f("ReplaceIfPresentFlag", "u8"), f("DataCoding", "u8"),
}

func smppSmFields(defMsgID string) []Fld {
	r := append([]Fld(nil), smppSm...)
	r = append(r, f(defMsgID, "u8"), fr("SmLength", "len8", "ShortMessage"), f("ShortMessage", "bodyb"), f("TLVs", "tlvs"))
	return r
}

var Layouts = []PDULayout{
	// ---------------- CMPP 2.0 (header: Total_Length 4, Command_Id 4, Sequence_Id 4)
	{Dir: "cmpp/cmpp20", Pkg: "cmpp20", Type: "PduConnect", Hdr: "cmpp", Cmd: "cmpp.CommandConnect", CmdVal: 0x00000001, Resp: "PduConnectResp", RespCmd: "cmpp.CommandConnectResp", InDispatcher: true,
		Fields: []Fld{f("SourceAddr", "fs", 6), f("AuthenticatorSource", "fb", 16), f("Version", "u8"), f("Timestamp", "u32")}},
	{Dir: "cmpp/cmpp20", Pkg: "cmpp20", Type: "PduConnectResp", Hdr: "cmpp", Cmd: "cmpp.CommandConnectResp", CmdVal: 0x80000001, InDispatcher: true,
		Fields: []Fld{f("Status", "u8"), f("AuthenticatorISMG", "fb", 16), f("Version", "u8")}},
	{Dir: "cmpp/cmpp20", Pkg: "cmpp20", Type: "PduTerminate", Hdr: "cmpp", Cmd: "cmpp.CommandTerminate", CmdVal: 0x00000002, Resp: "PduTerminateResp", RespCmd: "cmpp.CommandTerminateResp", InDispatcher: true},
	{Dir: "cmpp/cmpp20", Pkg: "cmpp20", Type: "PduTerminateResp", Hdr: "cmpp", Cmd: "cmpp.CommandTerminateResp", CmdVal: 0x80000002, InDispatcher: true},
	{Dir: "cmpp/cmpp20", Pkg: "cmpp20", Type: "PduSubmit", Hdr: "cmpp", Cmd: "cmpp.CommandSubmit", CmdVal: 0x00000004, Resp: "PduSubmitResp", RespCmd: "cmpp.CommandSubmitResp", InDispatcher: true, Fields: cmppSubmit20},
	{Dir: "cmpp/cmpp20", Pkg: "cmpp20", Type: "PduSubmitResp", Hdr: "cmpp", Cmd: "cmpp.CommandSubmitResp", CmdVal: 0x80000004, InDispatcher: true,
		Fields: []Fld{f("MsgID", "u64"), f("Result", "u8")}},
	{Dir: "cmpp/cmpp20", Pkg: "cmpp20", Type: "PduDeliver", Hdr: "cmpp", Cmd: "cmpp.CommandDeliver", CmdVal: 0x00000005, Resp: "PduDeliverResp", RespCmd: "cmpp.CommandDeliverResp", InDispatcher: true,
		Fields: []Fld{f("MsgID", "u64"), f("DestID", "fs", 21), f("ServiceID", "fs", 10), f("TpPID", "u8"), f("TpUDHI", "u8"), f("MsgFmt", "u8"), f("SrcTerminalID", "fs", 21),
			f("RegisteredDeliver", "u8"), fr("MsgLength", "len8", "MsgContent"), f("MsgContent", "body"), f("Reserved", "fs", 8)}},
	{Dir: "cmpp/cmpp20", Pkg: "cmpp20", Type: "PduDeliverResp", Hdr: "cmpp", Cmd: "cmpp.CommandDeliverResp", CmdVal: 0x80000005, InDispatcher: true,
		Fields: []Fld{f("MsgID", "u64"), f("Result", "u8")}},
	{Dir: "cmpp/cmpp20", Pkg: "cmpp20", Type: "PduQuery", Hdr: "cmpp", Cmd: "cmpp.CommandQuery", CmdVal: 0x00000006, Resp: "PduQueryResp", RespCmd: "cmpp.CommandQueryResp", InDispatcher: false,
		Fields: []Fld{f("Time", "fs", 8), f("QueryType", "u8"), f("QueryCode", "fs", 10), f("Reserve", "fs", 8)}},
	{Dir: "cmpp/cmpp20", Pkg: "cmpp20", Type: "PduQueryResp", Hdr: "cmpp", Cmd: "cmpp.CommandQueryResp", CmdVal: 0x80000006, InDispatcher: false, Fields: cmppQueryResp},
	{Dir: "cmpp/cmpp20", Pkg: "cmpp20", Type: "PduActiveTest", Hdr: "cmpp", Cmd: "cmpp.CommandActiveTest", CmdVal: 0x00000008, Resp: "PduActiveTestResp", RespCmd: "cmpp.CommandActiveTestResp", InDispatcher: true},
	{Dir: "cmpp/cmpp20", Pkg: "cmpp20", Type: "PduActiveTestResp", Hdr: "cmpp", Cmd: "cmpp.CommandActiveTestResp", CmdVal: 0x80000008, InDispatcher: true,
		Fields: []Fld{f("Reserved", "u8")}},

	// ---------------- CMPP 3.0
	{Dir: "cmpp/cmpp30", Pkg: "cmpp30", Type: "Connect", Hdr: "cmpp", Cmd: "cmpp.CommandConnect", CmdVal: 0x00000001, Resp: "ConnectResp", RespCmd: "cmpp.CommandConnectResp", InDispatcher: true,
		Fields: []Fld{f("SourceAddr", "fs", 6), f("AuthenticatorSource", "fb", 16), f("Version", "u8"), f("Timestamp", "u32")}},
	{Dir: "cmpp/cmpp30", Pkg: "cmpp30", Type: "ConnectResp", Hdr: "cmpp", Cmd: "cmpp.CommandConnectResp", CmdVal: 0x80000001, InDispatcher: true,
		Fields: []Fld{f("Status", "u32"), f("AuthenticatorISMG", "fb", 16), f("Version", "u8")}},
	{Dir: "cmpp/cmpp30", Pkg: "cmpp30", Type: "Terminate", Hdr: "cmpp", Cmd: "cmpp.CommandTerminate", CmdVal: 0x00000002, Resp: "TerminateResp", RespCmd: "cmpp.CommandTerminateResp", InDispatcher: true},
	{Dir: "cmpp/cmpp30", Pkg: "cmpp30", Type: "TerminateResp", Hdr: "cmpp", Cmd: "cmpp.CommandTerminateResp", CmdVal: 0x80000002, InDispatcher: true},
	{Dir: "cmpp/cmpp30", Pkg: "cmpp30", Type: "Submit", Hdr: "cmpp", Cmd: "cmpp.CommandSubmit", CmdVal: 0x00000004, Resp: "SubmitResp", RespCmd: "cmpp.CommandSubmitResp", InDispatcher: true, Fields: cmppSubmit30},
	{Dir: "cmpp/cmpp30", Pkg: "cmpp30", Type: "SubmitResp", Hdr: "cmpp", Cmd: "cmpp.CommandSubmitResp", CmdVal: 0x80000004, InDispatcher: true,
		Fields: []Fld{f("MsgID", "u64"), f("Result", "u32")}},
	{Dir: "cmpp/cmpp30", Pkg: "cmpp30", Type: "Deliver", Hdr: "cmpp", Cmd: "cmpp.CommandDeliver", CmdVal: 0x00000005, Resp: "DeliverResp", RespCmd: "cmpp.CommandDeliverResp", InDispatcher: true,
		Fields: []Fld{f("MsgID", "u64"), f("DestID", "fs", 21), f("ServiceID", "fs", 10), f("TpPID", "u8"), f("TpUDHI", "u8"), f("MsgFmt", "u8"), f("SrcTerminalID", "fs", 32), f("SrcTerminalType", "u8"),
			f("RegisteredDeliver", "u8"), fr("MsgLength", "len8", "MsgContent"), f("MsgContent", "body"), f("LinkID", "fs", 20)}},
	{Dir: "cmpp/cmpp30", Pkg: "cmpp30", Type: "DeliverResp", Hdr: "cmpp", Cmd: "cmpp.CommandDeliverResp", CmdVal: 0x80000005, InDispatcher: true,
		Fields: []Fld{f("MsgID", "u64"), f("Result", "u32")}},
	{Dir: "cmpp/cmpp30", Pkg: "cmpp30", Type: "Query", Hdr: "cmpp", Cmd: "cmpp.CommandQuery", CmdVal: 0x00000006, Resp: "QueryResp", RespCmd: "cmpp.CommandQueryResp", InDispatcher: true,
		Fields: []Fld{f("Time", "fs", 8), f("QueryType", "u8"), f("QueryCode", "fs", 10), f("Reserve", "fs", 8)}},
	{Dir: "cmpp/cmpp30", Pkg: "cmpp30", Type: "QueryResp", Hdr: "cmpp", Cmd: "cmpp.CommandQueryResp", CmdVal: 0x80000006, InDispatcher: true, Fields: cmppQueryResp},
	{Dir: "cmpp/cmpp30", Pkg: "cmpp30", Type: "Cancel", Hdr: "cmpp", Cmd: "cmpp.CommandCancel", CmdVal: 0x00000007, Resp: "CancelResp", RespCmd: "cmpp.CommandCancelResp", InDispatcher: true,
		Fields: []Fld{f("MsgID", "u64")}},
	{Dir: "cmpp/cmpp30", Pkg: "cmpp30", Type: "CancelResp", Hdr: "cmpp", Cmd: "cmpp.CommandCancelResp", CmdVal: 0x80000007, InDispatcher: true,
		Fields: []Fld{f("SuccessID", "u32")}},
	{Dir: "cmpp/cmpp30", Pkg: "cmpp30", Type: "ActiveTest", Hdr: "cmpp", Cmd: "cmpp.CommandActiveTest", CmdVal: 0x00000008, Resp: "ActiveTestResp", RespCmd: "cmpp.CommandActiveTestResp", InDispatcher: true},
	{Dir: "cmpp/cmpp30", Pkg: "cmpp30", Type: "ActiveTestResp", Hdr: "cmpp", Cmd: "cmpp.CommandActiveTestResp", CmdVal: 0x80000008, InDispatcher: true,
		Fields: []Fld{f("Reserved", "u8")}},

	// ---------------- SGIP 1.2 (header: Message Length 4, Command ID 4, Sequence Number 12)
	{Dir: "sgip/sgip12", Pkg: "sgip12", Type: "Bind", Hdr: "sgip", Cmd: "sgip.SGIP_BIND", CmdVal: 0x1, Resp: "BindResp", RespCmd: "sgip.SGIP_BIND_REP", InDispatcher: true,
		Fields: []Fld{f("Type", "u8"), f("Name", "fs", 16), f("Password", "fs", 16), f("Reserved", "fs", 8)}},
	{Dir: "sgip/sgip12", Pkg: "sgip12", Type: "BindResp", Hdr: "sgip", Cmd: "sgip.SGIP_BIND_REP", CmdVal: 0x80000001, InDispatcher: true,
		Fields: []Fld{f("Result", "u8"), f("Reserved", "fs", 8)}},
	{Dir: "sgip/sgip12", Pkg: "sgip12", Type: "Unbind", Hdr: "sgip", Cmd: "sgip.SGIP_UNBIND", CmdVal: 0x2, Resp: "UnbindResp", RespCmd: "sgip.SGIP_UNBIND_REP", InDispatcher: true},
	{Dir: "sgip/sgip12", Pkg: "sgip12", Type: "UnbindResp", Hdr: "sgip", Cmd: "sgip.SGIP_UNBIND_REP", CmdVal: 0x80000002, InDispatcher: false},
	{Dir: "sgip/sgip12", Pkg: "sgip12", Type: "Submit", Hdr: "sgip", Cmd: "sgip.SGIP_SUBMIT", CmdVal: 0x3, Resp: "SubmitResp", RespCmd: "sgip.SGIP_SUBMIT_REP", InDispatcher: true,
		Fields: []Fld{f("SpNumber", "fs", 21), f("ChargeNumber", "fs", 21), fr("UserCount", "cnt8", "UserNumber"), f("UserNumber", "list", 21), f("CorpID", "fs", 5), f("ServiceType", "fs", 10),
			f("FeeType", "u8"), f("FeeValue", "fs", 6), f("GivenValue", "fs", 6), f("AgentFlag", "u8"), f("MorelatetoMTFlag", "u8"), f("Priority", "u8"), f("ExpireTime", "fs", 16), f("ScheduleTime", "fs", 16),
			f("ReportFlag", "u8"), f("TpPid", "u8"), f("TpUdhi", "u8"), f("MessageCoding", "u8"), f("MessageType", "u8"), fr("MessageLength", "len32", "MessageContent"), f("MessageContent", "body"), f("Reserved", "fs", 8)}},
	{Dir: "sgip/sgip12", Pkg: "sgip12", Type: "SubmitResp", Hdr: "sgip", Cmd: "sgip.SGIP_SUBMIT_REP", CmdVal: 0x80000003, InDispatcher: true,
		Fields: []Fld{f("Result", "u8"), f("Reserved", "fs", 8)}},
	{Dir: "sgip/sgip12", Pkg: "sgip12", Type: "Deliver", Hdr: "sgip", Cmd: "sgip.SGIP_DELIVER", CmdVal: 0x4, Resp: "DeliverResp", RespCmd: "sgip.SGIP_DELIVER_REP", InDispatcher: true,
		Fields: []Fld{f("UserNumber", "fs", 21), f("SPNumber", "fs", 21), f("TpPid", "u8"), f("TpUdhi", "u8"), f("MessageCoding", "u8"), fr("MessageLength", "len32", "MessageContent"), f("MessageContent", "body"), f("Reserved", "fs", 8)}},
	{Dir: "sgip/sgip12", Pkg: "sgip12", Type: "DeliverResp", Hdr: "sgip", Cmd: "sgip.SGIP_DELIVER_REP", CmdVal: 0x80000004, InDispatcher: true,
		Fields: []Fld{f("Result", "u8"), f("Reserved", "fs", 8)}},
	{Dir: "sgip/sgip12", Pkg: "sgip12", Type: "Report", Hdr: "sgip", Cmd: "sgip.SGIP_REPORT", CmdVal: 0x5, Resp: "ReportResp", RespCmd: "sgip.SGIP_REPORT_REP", InDispatcher: true,
		Fields: []Fld{f("SubmitSequence", "u32x3"), f("ReportType", "u8"), f("UserNumber", "fs", 21), f("State", "u8"), f("ErrorCode", "u8"), f("Reserved", "fs", 8)}},
	{Dir: "sgip/sgip12", Pkg: "sgip12", Type: "ReportResp", Hdr: "sgip", Cmd: "sgip.SGIP_REPORT_REP", CmdVal: 0x80000005, InDispatcher: true,
		Fields: []Fld{f("Result", "u8"), f("Reserved", "fs", 8)}},

	// ---------------- SMGP 3.0 (header: PacketLength 4, RequestID 4, SequenceID 4)
	{Dir: "smgp/smgp30", Pkg: "smgp30", Type: "Login", Hdr: "smgp", Cmd: "smgp.CommandLogin", CmdVal: 0x00000001, Resp: "LoginResp", RespCmd: "smgp.CommandLoginResp", InDispatcher: true,
		Fields: []Fld{f("ClientID", "fs", 8), f("AuthenticatorClient", "fb", 16), f("LoginMode", "u8"), f("Timestamp", "u32"), f("Version", "u8")}},
	{Dir: "smgp/smgp30", Pkg: "smgp30", Type: "LoginResp", Hdr: "smgp", Cmd: "smgp.CommandLoginResp", CmdVal: 0x80000001, InDispatcher: true,
		Fields: []Fld{f("Status", "u32"), f("AuthenticatorServer", "fb", 16), f("ServerVersion", "u8")}},
	{Dir: "smgp/smgp30", Pkg: "smgp30", Type: "Submit", Hdr: "smgp", Cmd: "smgp.CommandSubmit", CmdVal: 0x00000002, Resp: "SubmitResp", RespCmd: "smgp.CommandSubmitResp", InDispatcher: true,
		Fields: []Fld{f("MsgType", "u8"), f("NeedReport", "u8"), f("Priority", "u8"), f("ServiceID", "fs", 10), f("FeeType", "fs", 2), f("FeeCode", "fs", 6), f("FixedFee", "fs", 6), f("MsgFormat", "u8"),
			f("ValidTime", "fs", 17), f("AtTime", "fs", 17), f("SrcTermID", "fs", 21), f("ChargeTermID", "fs", 21), fr("DestTermIDCount", "cnt8", "DestTermID"), f("DestTermID", "list", 21),
			fr("MsgLength", "len8", "MsgContent"), f("MsgContent", "body"), f("Reserve", "fs", 8), f("Options", "opts")}},
	{Dir: "smgp/smgp30", Pkg: "smgp30", Type: "SubmitResp", Hdr: "smgp", Cmd: "smgp.CommandSubmitResp", CmdVal: 0x80000002, InDispatcher: true,
		Fields: []Fld{f("MsgID", "fb", 10), f("Status", "u32")}},
	{Dir: "smgp/smgp30", Pkg: "smgp30", Type: "Deliver", Hdr: "smgp", Cmd: "smgp.CommandDeliver", CmdVal: 0x00000003, Resp: "DeliverResp", RespCmd: "smgp.CommandDeliverResp", InDispatcher: true,
		Fields: []Fld{f("MsgID", "fb", 10), f("IsReport", "u8"), f("MsgFormat", "u8"), f("RecvTime", "fs", 14), f("SrcTermID", "fs", 21), f("DestTermID", "fs", 21),
			fr("MsgLength", "len8", "MsgContent"), f("MsgContent", "body"), f("Reserve", "fs", 8), f("Options", "opts")}},
	{Dir: "smgp/smgp30", Pkg: "smgp30", Type: "DeliverResp", Hdr: "smgp", Cmd: "smgp.CommandDeliverResp", CmdVal: 0x80000003, InDispatcher: true,
		Fields: []Fld{f("MsgID", "hex", 10), f("Result", "u32")}},
	{Dir: "smgp/smgp30", Pkg: "smgp30", Type: "ActiveTest", Hdr: "smgp", Cmd: "smgp.CommandActiveTest", CmdVal: 0x00000004, Resp: "ActiveTestResp", RespCmd: "smgp.CommandActiveTestResp", InDispatcher: true},
	// SMGP 3.0.3 section 5.2.2.5.2: "Active_Test_Resp 无消息体" (no message body). The library's struct carries a
	// one-octet Reserved body that the specification does not have (known finding, C02).
	{Dir: "smgp/smgp30", Pkg: "smgp30", Type: "ActiveTestResp", Hdr: "smgp", Cmd: "smgp.CommandActiveTestResp", CmdVal: 0x80000004, InDispatcher: true},
	{Dir: "smgp/smgp30", Pkg: "smgp30", Type: "Exit", Hdr: "smgp", Cmd: "smgp.CommandExit", CmdVal: 0x00000006, Resp: "ExitResp", RespCmd: "smgp.CommandExitResp", InDispatcher: true},
	{Dir: "smgp/smgp30", Pkg: "smgp30", Type: "ExitResp", Hdr: "smgp", Cmd: "smgp.CommandExitResp", CmdVal: 0x80000006, InDispatcher: true},

	// ---------------- SMPP 3.4 (header: command_length 4, command_id 4, command_status 4, sequence_number 4)
	{Dir: "smpp/smpp34", Pkg: "smpp34", Type: "Bind", Hdr: "smpp", Cmd: "smpp.BIND_TRANSCEIVER", CmdVal: 0x00000009, Resp: "BindResp", RespCmd: "smpp.BIND_TRANSCEIVER_RESP", InDispatcher: true,
		Fields: []Fld{f("SystemID", "cs", 16), f("Password", "cs", 9), f("SystemType", "cs", 13), f("InterfaceVersion", "u8"), f("AddrTon", "u8"), f("AddrNpi", "u8"), f("AddressRange", "cs", 41)}},
	{Dir: "smpp/smpp34", Pkg: "smpp34", Type: "BindResp", Hdr: "smpp", Cmd: "smpp.BIND_TRANSCEIVER_RESP", CmdVal: 0x80000009, InDispatcher: true,
		Fields: []Fld{f("SystemID", "cs", 16), f("TLVs", "tlvs")}},
	{Dir: "smpp/smpp34", Pkg: "smpp34", Type: "Unbind", Hdr: "smpp", Cmd: "smpp.UNBIND", CmdVal: 0x00000006, Resp: "UnBindResp", RespCmd: "smpp.UNBIND_RESP", InDispatcher: true},
	{Dir: "smpp/smpp34", Pkg: "smpp34", Type: "UnBindResp", Hdr: "smpp", Cmd: "smpp.UNBIND_RESP", CmdVal: 0x80000006, InDispatcher: false},
	{Dir: "smpp/smpp34", Pkg: "smpp34", Type: "SubmitSm", Hdr: "smpp", Cmd: "smpp.SUBMIT_SM", CmdVal: 0x00000004, Resp: "SubmitSmResp", RespCmd: "smpp.SUBMIT_SM_RESP", InDispatcher: true, Fields: smppSmFields("SmDefaultMsgID")},
	{Dir: "smpp/smpp34", Pkg: "smpp34", Type: "SubmitSmResp", Hdr: "smpp", Cmd: "smpp.SUBMIT_SM_RESP", CmdVal: 0x80000004, InDispatcher: true,
		Fields: []Fld{f("MessageID", "cs", 65)}},
	{Dir: "smpp/smpp34", Pkg: "smpp34", Type: "DeliverSm", Hdr: "smpp", Cmd: "smpp.DELIVER_SM", CmdVal: 0x00000005, Resp: "DeliverSmResp", RespCmd: "smpp.DELIVER_SM_RESP", InDispatcher: true, Fields: smppSmFields("SmDefaultMsgId")},
	{Dir: "smpp/smpp34", Pkg: "smpp34", Type: "DeliverSmResp", Hdr: "smpp", Cmd: "smpp.DELIVER_SM_RESP", CmdVal: 0x80000005, InDispatcher: true,
		Fields: []Fld{f("MessageID", "cs", 65)}},
	{Dir: "smpp/smpp34", Pkg: "smpp34", Type: "EnquireLink", Hdr: "smpp", Cmd: "smpp.ENQUIRE_LINK", CmdVal: 0x00000015, Resp: "EnquireLinkResp", RespCmd: "smpp.ENQUIRE_LINK_RESP", InDispatcher: true},
	{Dir: "smpp/smpp34", Pkg: "smpp34", Type: "EnquireLinkResp", Hdr: "smpp", Cmd: "smpp.ENQUIRE_LINK_RESP", CmdVal: 0x80000015, InDispatcher: true},
	{Dir: "smpp/smpp34", Pkg: "smpp34", Type: "GenericNack", Hdr: "smpp", Cmd: "smpp.GENERIC_NACK", CmdVal: 0x80000000, InDispatcher: true},

	// ---------------- CMPP status-report body (Msg_Content of a deliver with Registered_Delivery = 1)
	{Dir: "cmpp", Pkg: "cmpp", Type: "SubPduDeliveryContent", Hdr: "none",
		Fields: []Fld{f("MsgID", "u64"), f("Stat", "fs", 7), f("SubmitTime", "fs", 10), f("DoneTime", "fs", 10), f("DestTerminalID", "fs", 21), f("SMSCSequence", "u32")}},
}
