package driver

func c13Jobs(tier string) []Job {
	var js []Job
	add := func(src []Job, every int) {
		for i, j := range src {
			if i%every != 0 {
				continue
			}
			p := map[string]int{}
			for k, v := range j.Params {
				p[k] = v
			}
			p["c13"] = 1
			j.Params = p
			if j.Name != "" {
				j.Name = "c13." + j.Name
			} else {
				j.Name = "c13." + j.name()
			}
			js = append(js, j)
		}
	}
	every := 3
	if tier == "thorough" {
		every = 1
	}
	add(pduJobs(12, "VH_PDU_", tier), every)
	add(c09Jobs(tier), every)
	add(c06Jobs(tier), every)
	add(c05Jobs(tier), 1)
	return js
}

func init() {
	register(&PropSpec{
		ID:        "C13",
		Jobs:      c13Jobs,
		Functions: append(append([]string{}, pduFunctions...), "BatchDataCodingEncoder.Build and the goroutines it starts", "split entry points", "text codecs", "cmpp.Utf8ToUcs2Pooled"),
		Stubs:     []string{"bytebufferpool / sync.Pool: Get returns a buffer with arbitrary stale content (the only schedule-dependent value), Put marks the buffer released", "errgroup: every completion order", "logger: no-op"},
		Bounds: map[string]string{
			"what is decided": "reduction side-conditions on every path of the C12/C09/C06/C05 jobs (all inputs within their bounds): (R1) no store to package-level state or to objects created by package initialisers, (R2) no read or write of a pooled buffer after Put, (R3) pairwise disjoint write sets of the goroutines the batch encoder starts (on objects that existed before they started), (R4) results independent of the pooled buffer's stale content (the C12 assertions with the pool in an arbitrary state)",
			"sampling":        "quick: every third job of the C12/C09/C06 families and all C05 jobs; thorough: all",
		},
		Outside:     []string{"true thread interleavings, the internals of sync.Pool/bytebufferpool/errgroup and the Go memory model are not executed: under R1-R3 every interleaving of calls on distinct values is equivalent to a sequential run in which each Get returns some buffer satisfying the pool invariant, which is the symbolic pre-state used here", "race-detector runs (a different technique)"},
		Assumptions: []string{"sync.Pool, bytebufferpool and errgroup are thread-safe as documented"},
	})
}
