package driver

import "fmt"

func c10Cmds(l PDULayout) []uint32 {
	if l.Pkg == "smpp34" && l.Type == "Bind" {
		return []uint32{0x1, 0x2, 0x9} // bind_receiver, bind_transmitter, bind_transceiver
	}
	if l.Pkg == "smpp34" && l.Type == "BindResp" {
		return []uint32{0x80000001, 0x80000002, 0x80000009}
	}
	return []uint32{l.CmdVal}
}

func c10Jobs(tier string) []Job {
	var js []Job
	pkgs := map[string]string{}
	hdrLen := map[string]int{}
	for _, l := range Layouts {
		if l.Hdr == "none" {
			continue
		}
		pkgs[l.Pkg] = l.Dir
		hdrLen[l.Pkg] = 4 * hdrWords(l.Hdr)
		for _, c := range c10Cmds(l) {
			js = append(js, Job{Dir: l.Dir, Harness: "VH_C10_" + l.Type, Params: map[string]int{"cmd": int(c)}, Name: fmt.Sprintf("%s.%s_pair_cmd%x", l.Pkg, l.Type, c)})
			js = append(js, Job{Dir: l.Dir, Harness: "VH_C10_dispatch_" + l.Type, Params: map[string]int{"cmd": int(c)}, Name: fmt.Sprintf("%s.%s_dispatch_cmd%x", l.Pkg, l.Type, c)})
		}
	}
	for pkg, dir := range pkgs {
		for _, n := range []int{hdrLen[pkg], hdrLen[pkg] + 4, hdrLen[pkg] + 12} {
			js = append(js, Job{Dir: dir, Harness: "VH_C10_dispatch_unknown", Params: map[string]int{"n": n}, Name: fmt.Sprintf("%s.dispatch_unknown_n%d", pkg, n)})
		}
	}
	return js
}

func init() {
	register(&PropSpec{
		ID:        "C10",
		Jobs:      c10Jobs,
		Functions: []string{"GenEmptyResponse/GetCommand/SetSequenceID/GetSequenceID/IEncode of all 57 PDU types", "DecodeSMPP34, DecodeCMPP20, DecodeCMPP30, DecodeSGIP12, DecodeSMGP30", "PeekHeader of the four header packages"},
		Stubs:     pduStubs,
		Bounds: map[string]string{
			"sequence numbers": "all 32-bit values (SGIP: all three words), symbolic",
			"fields":           "all other field values symbolic (minimal shapes: empty lists/bodies)",
			"command ids":      "every defined id of each package exactly (oracle: command table in layouts.go from the specifications); all three SMPP bind flavours; for the unknown-id clause the 32-bit command word is symbolic over all values outside the package's table",
		},
		Outside: []string{"PDUs built by hand with a command id that does not belong to their type"},
	})
}
