package driver

func extraC12Jobs(tier string) []Job { return nil }
