package driver

func init() {
	register(&PropSpec{
		ID: "C16",
		Jobs: func(tier string) []Job {
			var js []Job
			ks := []int{0, 1, 2, 3}
			vl := []int{0, 1, 4}
			nf := []int{0, 3, 4, 5, 8, 9, 10}
			if tier == "thorough" {
				vl = []int{0, 1, 2, 4, 7}
				nf = []int{0, 1, 2, 3, 4, 5, 6, 7, 8, 9, 10, 11, 12, 13, 14}
			}
			for _, pk := range [][2]string{{"smpp", "tlv"}, {"smgp", "opt"}} {
				for _, k := range ks {
					for _, v := range vl {
						js = append(js, Job{Dir: pk[0], Harness: "VH_C16_" + pk[1] + "_set", Params: map[string]int{"k": k, "vlen": v}, Weight: k * 10})
						if k > 0 {
							js = append(js, Job{Dir: pk[0], Harness: "VH_C16_" + pk[1] + "_agree", Params: map[string]int{"k": k, "vlen": v}, Weight: k * 10})
						}
					}
				}
				for _, n := range nf {
					js = append(js, Job{Dir: pk[0], Harness: "VH_C16_" + pk[1] + "_nofab", Params: map[string]int{"n": n}, Weight: n, MaxPaths: 20000})
				}
				for _, n := range []int{0, 1, 255, 256, 65530, 65531, 65532, 65535, 65536, 70000} {
					js = append(js, Job{Dir: pk[0], Harness: "VH_C16_" + pk[1] + "_big", Params: map[string]int{"n": n}, Weight: 5, MaxSteps: 20000000})
				}
			}
			js = append(js, Job{Dir: "smgp", Harness: "VH_C16_opt_misc", Params: map[string]int{"part": 0}})
			js = append(js, Job{Dir: "smgp", Harness: "VH_C16_opt_misc", Params: map[string]int{"part": 1}})
			return js
		},
		Functions: []string{"smpp.NewTLV, TLV.Bytes/Value, TLVs.SetTLV/Bytes, ReadTLVs, ReadTLVs1", "smgp.NewOption, Option.Bytes/Len/Value, Options.Add/Len/Serialize/TP_udhi, ParseOptions, ReadOptions", "packet.Reader.ReadBytes/Remaining/Error/SetErrNil"},
		Stubs:     pduStubs,
		Bounds: map[string]string{
			"sets":        "0..3 parameters with distinct symbolic tags (all 16-bit values), values of 0/1/4 octets (thorough: 0/1/2/4/7), every serialisation order (map iteration order is a nondeterministic choice explored exhaustively)",
			"agreement":   "well-formed sequences of 1..3 triplets, tags symbolic and possibly equal",
			"fabrication": "every octet string of length n, n in {0,3,4,5,8,9,10} (thorough 0..14), against a reference walk",
			"sizes":       "single values of 0,1,255,256,65530,65531,65532,65535,65536,70000 octets (concrete zero content, symbolic tag)",
		},
		Outside: []string{"sets of more than 3 parameters", "byte strings longer than 14 octets for the no-fabrication clause"},
	})
}
