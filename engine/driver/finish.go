package driver

import (
	"encoding/json"
	"fmt"
	"os"
	"path/filepath"
	"sort"
	"strings"
	"time"
)

type PropSpec struct {
	ID          string
	Jobs        func(tier string) []Job
	Functions   []string // real functions executed symbolically (for evidence)
	Bounds      map[string]string
	Stubs       []string
	Outside     []string
	Assumptions []string
}

var Registry = map[string]*PropSpec{}

func register(p *PropSpec) { Registry[p.ID] = p }

type violationOut struct {
	Job       string            `json:"job"`
	Harness   string            `json:"harness"`
	Dir       string            `json:"dir"`
	Label     string            `json:"label"`
	Msg       string            `json:"msg"`
	Params    map[string]int    `json:"params"`
	Model     map[string]uint64 `json:"model"`
	Confirmed bool              `json:"confirmed_natively"`
	Native    *NativeResult     `json:"native_result,omitempty"`
	KF        string            `json:"known_finding_id,omitempty"`
	Replay    string            `json:"replay_cmd,omitempty"`
}

func nonzero(m map[string]uint64) map[string]uint64 {
	r := map[string]uint64{}
	for k, v := range m {
		if v != 0 {
			r[k] = v
		}
	}
	return r
}

func Confirms(label string, nr *NativeResult) bool { return confirms(label, nr) }

func confirms(label string, nr *NativeResult) bool {
	if nr == nil {
		return false
	}
	switch {
	case strings.HasPrefix(label, "C13."):
		// reduction side-conditions (shared write / use after Put / overlapping goroutine writes) are
		// properties of the execution the engine observed; there is no native assertion to re-run
		return nr != nil && !nr.Missing
	case label == "panic":
		return nr.Panic != ""
	case label == "unwind":
		return nr.Timeout
	case label == "alloc":
		for _, f := range nr.Failed {
			if f == "alloc" {
				return true
			}
		}
		return false
	}
	for _, f := range nr.Failed {
		if f == label {
			return true
		}
	}
	return false
}

func finish(o RunOpts, spec *PropSpec, ov *Overlay, jobs []Job, results []*jobResult, t0 time.Time, loadT time.Duration) int {
	kfs, err := LoadKnownFindings()
	if err != nil {
		fmt.Println(err)
		return 3
	}
	exit := 0
	var broken []string
	// ---- collect native cases
	var cases []NativeCase
	type pending struct {
		v   violationOut
		id  string
		kf  bool
		res *jobResult
	}
	var pend []pending
	for _, r := range results {
		if r == nil {
			continue
		}
		if r.err != "" && r.st == nil {
			broken = append(broken, r.job.name()+": "+r.err)
			continue
		}
		if strings.Contains(r.err, "internal engine error") {
			broken = append(broken, r.job.name()+": "+r.err)
		}
		for i, v := range r.st.Violations {
			id := fmt.Sprintf("%s:%s#viol%d", r.job.Dir, r.job.name(), i)
			to := 20000
			if v.Label == "unwind" {
				to = 5000
			}
			cases = append(cases, NativeCase{ID: id, Harness: r.job.Harness, Params: r.job.Params, Model: nonzero(v.Model), TimeoutMs: to, Dir: r.job.Dir})
			pend = append(pend, pending{id: id, res: r, v: violationOut{Job: r.job.name(), Harness: r.job.Harness, Dir: r.job.Dir, Label: v.Label, Msg: v.Msg, Params: r.job.Params, Model: nonzero(v.Model)}})
		}
		kfIDs := make([]string, 0, len(r.st.KFHits))
		for id := range r.st.KFHits {
			kfIDs = append(kfIDs, id)
		}
		sort.Strings(kfIDs)
		for _, kid := range kfIDs {
			h := r.st.KFHits[kid]
			id := fmt.Sprintf("%s:%s#kf-%s", r.job.Dir, r.job.name(), kid)
			to := 20000
			if h.Label == "unwind" {
				to = 5000
			}
			cases = append(cases, NativeCase{ID: id, Harness: r.job.Harness, Params: r.job.Params, Model: nonzero(h.Model), TimeoutMs: to, Dir: r.job.Dir})
			pend = append(pend, pending{id: id, res: r, kf: true, v: violationOut{Job: r.job.name(), Harness: r.job.Harness, Dir: r.job.Dir, Label: h.Label, Params: r.job.Params, Model: nonzero(h.Model), KF: kid}})
		}
		if !o.NoNative {
			for _, c := range r.conc {
				cases = append(cases, NativeCase{ID: c.id, Harness: r.job.Harness, Params: r.job.Params, Model: nonzero(c.model), TimeoutMs: 20000, Dir: r.job.Dir})
			}
		}
	}
	nativeT0 := time.Now()
	nres, nerr := RunNative(ov, cases, false)
	nativeT := time.Since(nativeT0)
	if nerr != nil {
		broken = append(broken, "native replay failed: "+nerr.Error())
		nres = map[string]*NativeResult{}
	}
	// ---- translator validation
	validated, mismatches := 0, 0
	var mismatchNotes []string
	if !o.NoNative {
		for _, r := range results {
			if r == nil || r.st == nil {
				continue
			}
			for _, c := range r.conc {
				nr := nres[c.id]
				if nr == nil {
					continue
				}
				ok, why := compareRuns(c, nr)
				if ok {
					validated++
				} else {
					mismatches++
					if len(mismatchNotes) < 10 {
						mismatchNotes = append(mismatchNotes, fmt.Sprintf("%s: %s", c.id, why))
					}
				}
			}
		}
	}
	if mismatches > 0 {
		broken = append(broken, fmt.Sprintf("ENGINE-MISMATCH: %d concrete runs disagree between engine and native build: %s", mismatches, strings.Join(mismatchNotes, " | ")))
	}
	// ---- violations and known findings
	var viols []violationOut
	var kfLines []string
	unconfirmed := 0
	kfSeen := map[string]bool{}
	violSeen := map[string]bool{}
	for _, p := range pend {
		nr := nres[p.id]
		p.v.Native = nr
		p.v.Confirmed = confirms(p.v.Label, nr)
		if p.kf {
			key := o.Prop + "/" + p.v.KF
			k, listed := kfs[key]
			if listed && k.Status == "known" {
				if !p.v.Confirmed {
					// the excuse case no longer reproduces natively: nothing to report
					continue
				}
				if !kfSeen[key] {
					kfSeen[key] = true
					kfLines = append(kfLines, fmt.Sprintf("KNOWN-FINDING: property=%s %s %s", o.Prop, p.v.KF, k.Description))
				}
				continue
			}
			// not listed (or listed as fixed): it is a violation
		}
		if !p.v.Confirmed {
			unconfirmed++
			fmt.Printf("UNCONFIRMED property=%s job=%s label=%s (model does not reproduce natively: engine/stub imprecision)\n", o.Prop, p.v.Job, p.v.Label)
			viols = append(viols, p.v)
			continue
		}
		dkey := p.v.Label + "|" + p.v.KF
		dir := filepath.Join(VerifDir, "replays", o.Prop)
		os.MkdirAll(dir, 0o755)
		fname := filepath.Join(dir, sanitize(p.v.Dir+"-"+p.v.Job+"-"+p.v.Label)+".json")
		p.v.Replay = fmt.Sprintf("cd /verif && bin/vcheck replay %s", fname)
		b, _ := json.MarshalIndent(p.v, "", " ")
		os.WriteFile(fname, b, 0o644)
		if !violSeen[dkey] {
			violSeen[dkey] = true
			fmt.Printf("VIOLATION property=%s replay=%s\n", o.Prop, fname)
			fmt.Printf("  label=%s job=%s %s\n", p.v.Label, p.v.Job, p.v.Msg)
		}
		viols = append(viols, p.v)
		exit = 1
	}
	sort.Strings(kfLines)
	for _, l := range kfLines {
		fmt.Println(l)
	}
	// ---- vacuity, not-encodable, inconclusive
	var inconclusive []string
	for _, r := range results {
		if r == nil || r.st == nil {
			continue
		}
		if !r.job.NoEnd && r.st.Reached["end"] == 0 && len(r.st.Violations) == 0 && len(r.st.KFHits) == 0 && len(r.st.Inconclusive) == 0 {
			broken = append(broken, "VACUOUS: "+r.job.name()+" never reaches its end marker")
		}
		for _, ne := range r.st.NotEnc {
			broken = append(broken, "NOT-ENCODABLE in "+r.job.name()+": "+ne)
		}
		for _, inc := range r.st.Inconclusive {
			inconclusive = append(inconclusive, r.job.name()+": "+inc)
		}
	}
	writeEvidence(o, spec, jobs, results, viols, kfLines, broken, inconclusive, validated, mismatches, unconfirmed, time.Since(t0), loadT, nativeT)
	for _, b := range broken {
		fmt.Printf("BROKEN property=%s %s\n", o.Prop, b)
	}
	if len(inconclusive) > 0 {
		fmt.Printf("INCONCLUSIVE property=%s %d job notes (bounds reduced; see evidence): %s\n", o.Prop, len(inconclusive), first(inconclusive, 3))
	}
	if exit == 0 && len(broken) > 0 {
		exit = 3
	}
	npaths, nobl, ndis := 0, 0, 0
	for _, r := range results {
		if r != nil && r.st != nil {
			npaths += r.st.Paths
			nobl += r.st.Obligations
			ndis += r.st.Discharged
		}
	}
	fmt.Printf("property=%s tier=%s jobs=%d paths=%d obligations=%d discharged=%d validated=%d violations=%d known_findings=%d wall=%.1fs exit=%d\n",
		o.Prop, o.Tier, len(jobs), npaths, nobl, ndis, validated, len(viols), len(kfLines), time.Since(t0).Seconds(), exit)
	return exit
}

func first(s []string, n int) string {
	if len(s) > n {
		s = s[:n]
	}
	return strings.Join(s, " | ")
}

func sanitize(s string) string {
	var sb strings.Builder
	for _, c := range s {
		if c >= 'a' && c <= 'z' || c >= 'A' && c <= 'Z' || c >= '0' && c <= '9' || c == '-' || c == '_' || c == '.' {
			sb.WriteRune(c)
		} else {
			sb.WriteByte('_')
		}
	}
	r := sb.String()
	if len(r) > 150 {
		r = r[:150]
	}
	return r
}

func compareRuns(c concRun, nr *NativeResult) (bool, string) {
	if nr.Missing {
		return false, "harness missing natively"
	}
	nOutcome := "ok"
	switch {
	case nr.Panic != "":
		nOutcome = "panic"
	case nr.Assume:
		nOutcome = "assume"
	case nr.Timeout:
		nOutcome = "budget"
	}
	eo := c.outcome
	if eo == "assertfail" {
		eo = "ok"
	}
	if eo != nOutcome {
		return false, fmt.Sprintf("outcome engine=%s(%s) native=%s(%s)", c.outcome, c.msg, nOutcome, nr.Panic)
	}
	if eo != "ok" {
		return true, ""
	}
	nf := append([]string(nil), nr.Failed...)
	sort.Strings(nf)
	ef := append([]string(nil), c.failed...)
	sort.Strings(ef)
	if strings.Join(dedup(nf), ",") != strings.Join(dedup(ef), ",") {
		return false, fmt.Sprintf("failed asserts engine=%v native=%v", ef, nf)
	}
	if len(c.obs) != len(nr.Observed) {
		return false, fmt.Sprintf("observation count engine=%d native=%d", len(c.obs), len(nr.Observed))
	}
	for i := range c.obs {
		if c.obs[i].Name != nr.Observed[i][0] || c.obs[i].Val != nr.Observed[i][1] {
			return false, fmt.Sprintf("observation %s engine=%s native=%s=%s", c.obs[i].Name, c.obs[i].Val, nr.Observed[i][0], nr.Observed[i][1])
		}
	}
	return true, ""
}

func dedup(s []string) []string {
	var r []string
	for i, x := range s {
		if i == 0 || x != s[i-1] {
			r = append(r, x)
		}
	}
	return r
}

func writeEvidence(o RunOpts, spec *PropSpec, jobs []Job, results []*jobResult, viols []violationOut, kfLines, broken, inconclusive []string,
	validated, mismatches, unconfirmed int, wall, loadT, nativeT time.Duration) {
	states, trans, obl, dis, queries := 0, int64(0), 0, 0, 0
	var solverS float64
	outcomes := map[string]int{}
	notes := map[string]int{}
	var samples []any
	var jobSumm []any
	for _, r := range results {
		if r == nil || r.st == nil {
			continue
		}
		s := r.st
		states += s.Paths
		trans += s.Instrs
		obl += s.Obligations
		dis += s.Discharged
		queries += s.Queries
		solverS += s.SolverTime.Seconds()
		for k, v := range s.Outcomes {
			outcomes[k] += v
		}
		for k, v := range s.Notes {
			notes[k] += v
		}
		if len(samples) < 6 && s.Witness != nil {
			w := nonzero(s.Witness)
			if len(w) > 40 {
				// keep samples readable
				keys := make([]string, 0, len(w))
				for k := range w {
					keys = append(keys, k)
				}
				sort.Strings(keys)
				w2 := map[string]uint64{}
				for _, k := range keys[:40] {
					w2[k] = w[k]
				}
				w = w2
			}
			samples = append(samples, map[string]any{"job": r.job.name(), "harness": r.job.Harness, "params": r.job.Params, "witness_input_nonzero_vars": w, "paths": s.Paths, "obligations": s.Obligations})
		}
		jobSumm = append(jobSumm, map[string]any{"job": r.job.name(), "paths": s.Paths, "obligations": s.Obligations, "discharged": s.Discharged,
			"queries": s.Queries, "solver_s": round3(s.SolverTime.Seconds()), "wall_s": round3(s.Wall.Seconds()), "outcomes": s.Outcomes})
	}
	if len(samples) == 0 {
		for _, j := range jobs {
			samples = append(samples, map[string]any{"job": j.name(), "params": j.Params})
			if len(samples) >= 3 {
				break
			}
		}
	}
	if len(jobSumm) > 400 {
		jobSumm = jobSumm[:400]
	}
	cov := map[string]any{
		"states":                        states,
		"transitions":                   trans,
		"traces_validated_against_impl": validated,
		"samples":                       samples,
		"obligations":                   obl,
		"discharged":                    dis,
		"jobs":                          len(jobs),
		"solver_queries":                queries,
		"solver_s":                      round3(solverS),
		"solver":                        strings.Join(solverCmd(), " "),
		"load_and_ssa_build_s":          round3(loadT.Seconds()),
		"native_replay_s":               round3(nativeT.Seconds()),
		"path_outcomes":                 outcomes,
		"functions_encoded":             spec.Functions,
		"bounds":                        spec.Bounds,
		"stubs":                         spec.Stubs,
		"outside_claim":                 spec.Outside,
		"known_findings_hit":            kfLines,
		"inconclusive":                  inconclusive,
		"engine_notes":                  notes,
		"engine_mismatches":             mismatches,
		"unconfirmed_counterexamples":   unconfirmed,
		"broken":                        broken,
		"violations_detail":             viols,
		"per_job":                       jobSumm,
		"explanation":                   "states = execution paths explored symbolically (each path covers all input values satisfying its path condition); transitions = SSA instructions interpreted; obligations = solver queries deciding an assertion/panic/unwinding condition over all values on a path; traces_validated_against_impl = concrete input assignments (solver witnesses and random) executed both by the engine and by the real build (go test -overlay) with identical observations",
	}
	ev := map[string]any{
		"property_id": o.Prop,
		"tier":        o.Tier,
		"seed":        o.Seed,
		"level":       "model_checking",
		"coverage":    cov,
		"assumptions": append([]string{
			"go/ssa (golang.org/x/tools v0.29.0) faithfully represents /repo's working tree; int is 64 bits (amd64)",
			"engine instruction semantics and the stubs listed under coverage.stubs are sound (checked on every run by executing solver witnesses and random inputs on both the engine and the real build)",
			"z3 answers are correct; unknown/timeout is reported as inconclusive, never as success",
		}, spec.Assumptions...),
		"wall_s":      round3(wall.Seconds()),
		"violations":  countConfirmed(viols),
	}
	os.MkdirAll(filepath.Join(VerifDir, "evidence"), 0o755)
	b, _ := json.MarshalIndent(ev, "", " ")
	os.WriteFile(filepath.Join(VerifDir, "evidence", o.Prop+".json"), b, 0o644)
}

func countConfirmed(v []violationOut) int {
	n := 0
	for _, x := range v {
		if x.Confirmed {
			n++
		}
	}
	return n
}

func round3(f float64) float64 { return float64(int(f*1000+0.5)) / 1000 }
