package driver

import "time"

func c06Jobs(tier string) []Job {
	var js []Job
	// packed GSM-7 through the splitter itself and through the SMPP entry point
	// (2..6 and 166 = 153+13 bring the septet count of the last part to every remainder modulo 8:
	// the packer has one branch per remainder)
	ts := []int{0, 1, 2, 3, 4, 5, 6, 7, 8, 159, 160, 161, 166, 305, 306, 307}
	if tier == "thorough" {
		ts = append(ts, 13, 15, 16, 152, 153, 154, 155, 156, 157, 158, 162, 163, 164, 165, 167, 168, 304, 308, 458, 459, 460, 461, 612, 613)
	}
	for _, t := range ts {
		for entry := 0; entry <= 1; entry++ {
			if t == 0 && entry == 0 {
				continue
			}
			js = append(js, Job{Dir: "", Harness: "VH_C06_packed", Params: map[string]int{"T": t, "entry": entry}, Weight: t, Timeout: 6 * time.Minute, NoEnd: false})
		}
	}
	as := []int{0, 1, 140, 141, 268, 269}
	if tier == "thorough" {
		as = append(as, 2, 134, 135, 139, 267, 270, 402, 403, 536, 537)
	}
	for _, t := range as {
		js = append(js, Job{Dir: "", Harness: "VH_C06_cmpp_ascii", Params: map[string]int{"T": t}, Weight: t})
		js = append(js, Job{Dir: "", Harness: "VH_C06_smpp_ascii", Params: map[string]int{"T": t, "c": 1}, Weight: t})
		js = append(js, Job{Dir: "", Harness: "VH_C06_smpp_ascii", Params: map[string]int{"T": t, "c": 3}, Weight: t})
	}
	us := []int{1, 70, 71, 134, 135}
	if tier == "thorough" {
		us = append(us, 2, 67, 68, 69, 133, 136, 201, 202)
	}
	for _, t := range us {
		for smpp := 0; smpp <= 2; smpp++ {
			js = append(js, Job{Dir: "", Harness: "VH_C06_ucs2", Params: map[string]int{"T": t, "smpp": smpp}, Weight: 2 * t})
		}
	}
	for which := 0; which <= 3; which++ {
		js = append(js, Job{Dir: "", Harness: "VH_C06_fallback", Params: map[string]int{"which": which}, Weight: 20})
	}
	// fallback to UCS-2 for texts around the UCS-2 single/multi threshold (70 characters)
	fl := []int{69, 70, 80}
	if tier == "thorough" {
		fl = []int{1, 68, 69, 70, 71, 76, 80, 133, 134}
	}
	for req := 0; req <= 4; req++ {
		for _, t := range fl {
			js = append(js, Job{Dir: "", Harness: "VH_C06_fallback_long", Params: map[string]int{"req": req, "T": t}, Weight: 30 + t})
		}
	}
	return js
}

func c14Jobs(tier string) []Job {
	var js []Job
	for _, t := range []int{136, 270} {
		js = append(js, Job{Dir: "", Harness: "VH_C14_generic", Params: map[string]int{"T": t, "kind": 0}, Weight: t})
	}
	for _, t := range []int{155, 308} {
		js = append(js, Job{Dir: "", Harness: "VH_C14_generic", Params: map[string]int{"T": t, "kind": 1}, Weight: t})
	}
	js = append(js, Job{Dir: "", Harness: "VH_C14_generic", Params: map[string]int{"T": 137, "kind": 2}, Weight: 137})
	for _, lead := range []int{64, 65, 66, 67} {
		js = append(js, Job{Dir: "", Harness: "VH_C14_entry_ucs2", Params: map[string]int{"lead": lead}, Weight: 50})
	}
	// the escape-aware packed splitter (shared with C06)
	ts := []int{161, 305, 306, 307}
	if tier == "thorough" {
		ts = append(ts, 154, 162, 304, 308, 458, 459, 460)
	}
	for _, t := range ts {
		js = append(js, Job{Dir: "", Harness: "VH_C06_packed", Params: map[string]int{"T": t, "entry": 0}, Weight: t, Timeout: 20 * time.Minute})
	}
	return js
}

func init() {
	fns := []string{"EncodeCMPPContentAndSplit, EncodeSMPPContentAndSplit, encodeAndSplitGSM7Packed, splitWithUDHI, ceil", "gsm7encoding.Pack", "datacoding.GetCMPPCodec/GetSMPPCodec/NewCMPPCodec/NewSMPPCodec, Ascii/UCS2 codecs, Codec.SplitBy", "x/text UTF-16 encoder and transform.Bytes (real SSA)"}
	stubs := []string{"gsm7encoding.Encode / IsValidGSM7String on texts created by vGSM7Text: contract stub returning the given valid septet stream (contract proved by C08: Decode inverts Encode); real code otherwise"}
	register(&PropSpec{
		ID: "C06", Jobs: c06Jobs, Functions: fns, Stubs: stubs,
		Bounds: map[string]string{
			"packed GSM-7": "every valid septet stream of length T (content symbolic; escape pairs anywhere within 3 septets before / 1 after each multiple of 153, in the first 2 and last 3 septets, and anywhere for T <= 8), T in {0..8,159,160,161,166,305,306,307} - the last part's septet count takes every remainder modulo 8 (thorough adds 152..158, 162..168 and up to 613 = 4 parts); oracle: reference segmentation + reference packer",
			"ASCII":        "every ASCII text of T octets through the CMPP (coding 0) and SMPP (coding 1 ASCII, coding 3 Latin-1) entry points, T in {0,1,140,141,268,269} (thorough up to 537); UCS-2 through SMPP 8, CMPP 8 and CMPP 9",
			"UCS-2":        "every text of T ASCII-range characters, T in {1,70,71,134,135} (thorough up to 202), both entry points",
			"fallback":     "texts 'a'+r for every BMP scalar r >= 0x80 (symbolic); every invalid coding number (symbolic int); T concrete ASCII letters followed by one symbolic CJK character (T in {69,70,80}, thorough up to 134) requested as SMPP GSM-7 unpacked/packed, ASCII, Latin-1 and CMPP ASCII",
		},
		Outside: []string{"GB18030 texts (table-driven codec, see DESIGN.md section 9)", "Latin-1 and unpacked GSM-7 long texts end-to-end (their splitter is the generic one checked under C07 with arbitrary streams)", "texts beyond the listed lengths"},
	})
	register(&PropSpec{
		ID: "C14", Jobs: c14Jobs, Functions: fns, Stubs: stubs,
		Bounds: map[string]string{
			"generic splitter": "every well-formed UTF-16BE stream of 136/270 octets and every unpacked GSM-7 stream of 155/308 septets (content symbolic) through splitWithUDHI; UCS-2 also end-to-end with a symbolic supplementary-plane character after 64..67 ASCII characters",
			"packed splitter":  "as C06 (valid septet streams with escapes around the boundaries)",
		},
		Outside: []string{"GB18030: only streams of ASCII octets with one two-octet character around the first cut (the codec tables are not encoded; four-octet characters not modelled)"},
	})
}
