package driver

import "fmt"

func layoutMinLen(l PDULayout) int {
	n := 4 * hdrWords(l.Hdr)
	for _, f := range l.Fields {
		switch f.Kind {
		case "fs", "fb", "hex":
			n += f.W
		case "cs":
			n++
		case "u32x3":
			n += 12
		default:
			n += intBytes(f.Kind)
		}
	}
	return n
}

func listWidth(l PDULayout) int {
	for _, f := range l.Fields {
		if f.Kind == "list" {
			return f.W
		}
	}
	return 0
}

func c03Sizes(l PDULayout, tier string) []int {
	m := layoutMinLen(l)
	set := map[int]bool{}
	add := func(n int) {
		if n >= 0 {
			set[n] = true
		}
	}
	for _, n := range []int{0, 1, 3, 4, 11, 12, 13, 19, 20, m - 1, m, m + 1, m + 4} {
		add(n)
	}
	if w := listWidth(l); w > 0 {
		add(m + w)
		add(m + w + 1)
	}
	if hasK(l, "tlvs", "opts") {
		add(m + 5)
		if len(csFields(l)) < 3 {
			add(m + 8)
		}
	}
	if tier == "thorough" {
		for n := 0; n <= m+12; n++ {
			add(n)
		}
		if w := listWidth(l); w > 0 {
			for d := -1; d <= 3; d++ {
				add(m + 2*w + d)
			}
		}
	}
	var r []int
	for n := range set {
		r = append(r, n)
	}
	return r
}

func c03Jobs(tier string) []Job {
	var js []Job
	for _, l := range Layouts {
		for _, n := range c03Sizes(l, tier) {
			js = append(js, Job{Dir: l.Dir, Harness: "VH_C03_" + l.Type, Params: map[string]int{"n": n},
				Name: fmt.Sprintf("%s.%s_n%d", l.Pkg, l.Type, n), Weight: n + 100*len(csFields(l)), MaxPaths: 40000})
		}
	}
	return js
}

func init() {
	register(&PropSpec{
		ID:        "C03",
		Jobs:      c03Jobs,
		Functions: append([]string{"IDecode of all 57 PDU types + cmpp.SubPduDeliveryContent on arbitrary bytes"}, pduFunctions[1:]...),
		Stubs:     pduStubs,
		Bounds: map[string]string{
			"input":      "every octet string of length N (all N octets symbolic): one job subsumes every truncation point, every substitution of count/length octets and every trailing garbage of that total length",
			"N":          "quick: {0,1,3,4,11,12,13,19,20, min-1, min, min+1, min+4, min+one list entry(+1), min+5/+8 for optional parameters}; thorough: every N up to min+12 and around two list entries",
			"no-hang":    "per-path instruction budget 400000+4000*N; exceeding it on a feasible path is reported as a violation (label unwind) and replayed natively under a wall-clock limit",
			"allocation": "every make() whose size is symbolic must satisfy size <= 16*N+1024 at the allocation site",
		},
		Outside: []string{"inputs longer than the bound (64 KiB of the quantifier)", "coverage-guided fuzzing (another technique)", "time/memory proportionality constants beyond the two stated predicates"},
	})
}
