package driver

import "fmt"

func layoutMinLen(l PDULayout) int {
	n := 4 * hdrWords(l.Hdr)
	for _, f := range l.Fields {
		switch f.Kind {
		case "fs", "fb", "hex":
			n += f.W
		case "cs":
			n++
		case "u32x3":
			n += 12
		default:
			n += intBytes(f.Kind)
		}
	}
	return n
}

func listWidth(l PDULayout) int {
	for _, f := range l.Fields {
		if f.Kind == "list" {
			return f.W
		}
	}
	return 0
}

func c03Sizes(l PDULayout, tier string) []int {
	m := layoutMinLen(l)
	set := map[int]bool{}
	add := func(n int) {
		if n >= 0 {
			set[n] = true
		}
	}
	for _, n := range []int{0, 1, 3, 4, 11, 12, 13, 19, 20, m - 1, m, m + 1, m + 4} {
		add(n)
	}
	// cuts at the last three field boundaries (an image that stops exactly where a trailing field begins)
	cut := m
	for i, k := len(l.Fields)-1, 0; i >= 0 && k < 3; i-- {
		f := l.Fields[i]
		w := 0
		switch f.Kind {
		case "fs", "fb", "hex":
			w = f.W
		case "cs":
			w = 1
		case "u32x3":
			w = 12
		case "tlvs", "opts", "list", "body", "bodyb":
			w = 0
		default:
			w = intBytes(f.Kind)
		}
		if w == 0 {
			continue
		}
		cut -= w
		add(cut)
		k++
	}
	if w := listWidth(l); w > 0 && (tier == "thorough" || !hasK(l, "opts")) {
		add(m + w)
		add(m + w + 1)
	}
	if hasK(l, "tlvs", "opts") {
		add(m + 5)
		if len(csFields(l)) < 3 {
			add(m + 8)
		}
	}
	if tier == "thorough" {
		for n := 0; n <= m+12; n++ {
			add(n)
		}
		if w := listWidth(l); w > 0 {
			for d := -1; d <= 3; d++ {
				add(m + 2*w + d)
			}
		}
	}
	var r []int
	for n := range set {
		r = append(r, n)
	}
	return r
}

func c03Jobs(tier string) []Job {
	var js []Job
	for _, l := range Layouts {
		for _, n := range c03Sizes(l, tier) {
			js = append(js, Job{Dir: l.Dir, Harness: "VH_C03_" + l.Type, Params: map[string]int{"n": n},
				Name: fmt.Sprintf("%s.%s_n%d", l.Pkg, l.Type, n), Weight: n + 100*len(csFields(l)), MaxPaths: 40000})
		}
	}
	// ---- dispatchers and auxiliary parsers
	hdr := map[string]int{}
	dirs := map[string]string{}
	for _, l := range Layouts {
		if l.Hdr != "none" {
			hdr[l.Pkg] = 4 * hdrWords(l.Hdr)
			dirs[l.Pkg] = l.Dir
		}
	}
	for pkg, dir := range dirs {
		for _, n := range []int{0, hdr[pkg] - 1, hdr[pkg], hdr[pkg] + 1, hdr[pkg] + 9} {
			js = append(js, Job{Dir: dir, Harness: "VH_C03_dispatch", Params: map[string]int{"n": n}, Name: fmt.Sprintf("%s.dispatch_n%d", pkg, n), Weight: n + 20, MaxPaths: 40000})
		}
	}
	for _, d := range []string{"cmpp", "smgp", "sgip", "smpp"} {
		for _, n := range []int{0, 4, 11, 12, 15, 16, 19, 20, 24} {
			js = append(js, Job{Dir: d, Harness: "VH_C03_headers", Params: map[string]int{"n": n}, Name: fmt.Sprintf("%s.headers_n%d", d, n)})
		}
	}
	nf := []int{0, 3, 4, 5, 8, 9, 10}
	if tier == "thorough" {
		nf = []int{0, 1, 2, 3, 4, 5, 6, 7, 8, 9, 10, 11, 12, 13, 14}
	}
	for _, n := range nf {
		js = append(js, Job{Dir: "smpp", Harness: "VH_C16_tlv_nofab", Params: map[string]int{"n": n}, Name: fmt.Sprintf("smpp.tlv_parsers_n%d", n), MaxPaths: 20000})
		js = append(js, Job{Dir: "smgp", Harness: "VH_C16_opt_nofab", Params: map[string]int{"n": n}, Name: fmt.Sprintf("smgp.option_parsers_n%d", n), MaxPaths: 20000})
	}
	for n := 0; n <= 10; n++ {
		js = append(js, Job{Dir: "", Harness: "VH_C07_parse", Params: map[string]int{"n": n}, Name: fmt.Sprintf("ParseLongSmsContent_n%d", n)})
	}
	rn := []int{0, 1, 3, 4, 6, 8, 10, 12}
	if tier == "thorough" {
		rn = []int{0, 1, 2, 3, 4, 5, 6, 7, 8, 9, 10, 11, 12, 13, 14}
	}
	for _, n := range rn {
		js = append(js, Job{Dir: "smpp/smpp34", Harness: "VH_C03_smpp_receipt_raw", Params: map[string]int{"n": n}, Weight: 5 * n, MaxPaths: 40000})
		js = append(js, Job{Dir: "smgp/smgp30", Harness: "VH_C03_smgp_receipt_raw", Params: map[string]int{"n": n}, Weight: 5 * n, MaxPaths: 40000})
	}
	for n := 0; n <= 14; n++ {
		js = append(js, Job{Dir: "datacoding/gsm7encoding", Harness: "VH_C08_unpack_raw", Params: map[string]int{"n": n}, NoEnd: false, Name: fmt.Sprintf("gsm7.Unpack_n%d", n)})
	}
	for _, n := range []int{1, 2} {
		js = append(js, Job{Dir: "datacoding/gsm7encoding", Harness: "VH_C08_decode_pair", Params: map[string]int{"n": n}, Name: fmt.Sprintf("gsm7.Decode_n%d", n), Weight: 30})
	}
	for _, n := range []int{0, 1, 2, 3} {
		for packed := 0; packed <= 1; packed++ {
			js = append(js, Job{Dir: "datacoding/gsm7encoding", Harness: "VH_C03_gsm7_decoder", Params: map[string]int{"n": n, "packed": packed}, Weight: 20 + n, MaxPaths: 40000})
		}
	}
	for _, n := range []int{0, 1, 2} {
		for smpp := 0; smpp <= 1; smpp++ {
			if n == 2 && smpp == 1 && tier != "thorough" {
				continue
			}
			js = append(js, Job{Dir: "", Harness: "VH_C03_content_decode", Params: map[string]int{"n": n, "smpp": smpp}, Weight: 30 + n, MaxPaths: 40000})
		}
	}
	for codec := 0; codec <= 1; codec++ {
		for _, m := range []int{0, 3, 4, 8} {
			js = append(js, Job{Dir: "codec", Harness: "VH_C04_decode", Params: map[string]int{"M": m, "cur": 0, "codec": codec}, Name: fmt.Sprintf("codec%d.Decode_M%d", codec, m)})
			js = append(js, Job{Dir: "codec", Harness: "VH_C04_blocked", Params: map[string]int{"M": m, "codec": codec, "fault": 0, "chunks": 2, "dataerr": 0}, Name: fmt.Sprintf("codec%d.DecodeBlocked_M%d", codec, m), MaxPaths: 40000})
		}
	}
	return js
}

func init() {
	register(&PropSpec{
		ID:        "C03",
		Jobs:      c03Jobs,
		Functions: append([]string{"IDecode of all 57 PDU types + cmpp.SubPduDeliveryContent on arbitrary bytes"}, pduFunctions[1:]...),
		Stubs:     pduStubs,
		Bounds: map[string]string{
			"input":      "every octet string of length N (all N octets symbolic): one job subsumes every truncation point, every substitution of count/length octets and every trailing garbage of that total length",
			"auxiliary":  "dispatchers (N around the header size), header peekers (N 0..24), TLV/option parsers (N <= 10, thorough 14), ParseLongSmsContent (N <= 10), receipt parsers (N <= 12, thorough 14), gsm7 Unpack (N <= 14), Decode (N <= 2), decoding transformers (N <= 3), content decoders (N <= 2, every coding number), frame extractors (M <= 8)",
			"N":          "quick: {0,1,3,4,11,12,13,19,20, min-1, min, min+1, min+4, the last three field boundaries below min, min+one list entry(+1), min+5/+8 for optional parameters}; thorough: every N up to min+12 and around two list entries",
			"no-hang":    "per-path instruction budget 400000+4000*N; exceeding it on a feasible path is reported as a violation (label unwind) and replayed natively under a wall-clock limit",
			"allocation": "every make() whose size is symbolic must satisfy size <= 16*N+1024 at the allocation site",
		},
		Outside: []string{"GB18030 text decoder (x/text tables not encoded)", "inputs longer than the bound (64 KiB of the quantifier)", "coverage-guided fuzzing (another technique)", "time/memory proportionality constants beyond the two stated predicates"},
	})
}
