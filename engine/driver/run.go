package driver

import (
	"bufio"
	"encoding/json"
	"fmt"
	"math/rand"
	"os"
	"path/filepath"
	"runtime"
	"sort"
	"strings"
	"sync"
	"time"

	"verif/engine/sym"
)

type Job struct {
	Prop     string
	Dir      string // package dir relative to /repo ("" = root)
	Harness  string
	Name     string
	Params   map[string]int
	MaxPaths int
	MaxSteps int
	Timeout  time.Duration
	NoEnd    bool // the harness is not expected to reach "end" on any path
	NoNative bool // skip native translator validation for this job
	Weight   int
	Solver   string // "" = default (z3-new), "cvc5"
}

func (j *Job) name() string {
	if j.Name != "" {
		return j.Name
	}
	keys := make([]string, 0, len(j.Params))
	for k := range j.Params {
		keys = append(keys, k)
	}
	sort.Strings(keys)
	var sb strings.Builder
	sb.WriteString(j.Harness)
	for _, k := range keys {
		fmt.Fprintf(&sb, "_%s%d", k, j.Params[k])
	}
	return sb.String()
}

type KnownFinding struct {
	Status       string `json:"status"` // known | fixed
	Property     string `json:"property"`
	ID           string `json:"id"`
	Where        string `json:"where"`
	FailingInput string `json:"failing_input"`
	Description  string `json:"description"`
	Commit       string `json:"commit,omitempty"`
}

func LoadKnownFindings() (map[string]KnownFinding, error) {
	m := map[string]KnownFinding{}
	f, err := os.Open(filepath.Join(VerifDir, "known_findings.jsonl"))
	if err != nil {
		if os.IsNotExist(err) {
			return m, nil
		}
		return nil, err
	}
	defer f.Close()
	sc := bufio.NewScanner(f)
	sc.Buffer(make([]byte, 1<<20), 1<<20)
	for sc.Scan() {
		line := strings.TrimSpace(sc.Text())
		if line == "" {
			continue
		}
		var k KnownFinding
		if err := json.Unmarshal([]byte(line), &k); err != nil {
			return nil, fmt.Errorf("known_findings.jsonl: %v", err)
		}
		m[k.Property+"/"+k.ID] = k
	}
	return m, nil
}

type jobResult struct {
	job   *Job
	st    *sym.JobState
	conc  []concRun // engine concrete runs for validation
	vars  map[string]int
	err   string
	stats sym.Stats
}

type concRun struct {
	id      string
	model   map[string]uint64
	outcome string
	msg     string
	failed  []string
	obs     []sym.Observation
}

var initPkgs = []string{"io", "bytes", "strings", "unicode/utf8", "unicode/utf16", "encoding/binary", "encoding/hex",
	"golang.org/x/text/transform", "golang.org/x/text/encoding", "golang.org/x/text/encoding/unicode", "golang.org/x/text/encoding/charmap",
	"golang.org/x/text/encoding/internal", "golang.org/x/text/encoding/internal/identifier"}

type RunOpts struct {
	Prop    string
	Tier    string
	Seed    int64
	Workers int
	Only    string // substring filter on job names (development)
	Verbose bool
	NoNative bool
}

func solverCmd() []string {
	if s := os.Getenv("VERIF_SOLVER"); s != "" {
		return strings.Fields(s)
	}
	return []string{"z3-new", "-in"}
}

// RunProperty runs all jobs of a property and returns the process exit code.
func RunProperty(o RunOpts) int {
	t0 := time.Now()
	spec, ok := Registry[o.Prop]
	if !ok {
		fmt.Printf("unknown property %s\n", o.Prop)
		return 3
	}
	ov, err := BuildOverlay()
	if err != nil {
		fmt.Println("overlay:", err)
		return 3
	}
	l, err := sym.Load(RepoDir, ov.EngineFiles())
	if err != nil {
		fmt.Println("load:", err)
		return 3
	}
	loadT := time.Since(t0)
	jobs := spec.Jobs(o.Tier)
	if o.Only != "" {
		var f []Job
		for _, j := range jobs {
			if strings.Contains(j.name(), o.Only) {
				f = append(f, j)
			}
		}
		jobs = f
	}
	for i := range jobs {
		jobs[i].Prop = o.Prop
	}
	if o.Workers == 0 {
		o.Workers = runtime.NumCPU()
	}
	if o.Workers > len(jobs) {
		o.Workers = len(jobs)
	}
	timeoutMs := 60000
	if o.Tier == "thorough" {
		timeoutMs = 300000
	}
	nValid := 2
	if o.Tier == "thorough" {
		nValid = 6
	}
	// heaviest first
	order := make([]int, len(jobs))
	for i := range order {
		order[i] = i
	}
	sort.SliceStable(order, func(a, b int) bool { return jobs[order[a]].Weight > jobs[order[b]].Weight })
	results := make([]*jobResult, len(jobs))
	var wg sync.WaitGroup
	ch := make(chan int)
	var mu sync.Mutex
	done := 0
	for w := 0; w < o.Workers; w++ {
		wg.Add(1)
		go func(w int) {
			defer wg.Done()
			for idx := range ch {
				job := &jobs[idx]
				res := runOneJob(l, job, timeoutMs, nValid, o.Seed+int64(idx)*7919)
				results[idx] = res
				mu.Lock()
				done++
				if o.Verbose {
					s := res.st
					if s != nil {
						fmt.Printf("[%d/%d] %s paths=%d obl=%d/%d viol=%d kf=%d inc=%d q=%d solver=%.1fs wall=%.1fs %s\n", done, len(jobs), job.name(), s.Paths, s.Discharged, s.Obligations, len(s.Violations), len(s.KFHits), len(s.Inconclusive), s.Queries, s.SolverTime.Seconds(), s.Wall.Seconds(), res.err)
					} else {
						fmt.Printf("[%d/%d] %s ERROR %s\n", done, len(jobs), job.name(), res.err)
					}
				}
				mu.Unlock()
			}
		}(w)
	}
	for _, idx := range order {
		ch <- idx
	}
	close(ch)
	wg.Wait()

	return finish(o, spec, ov, jobs, results, t0, loadT)
}

func runOneJob(l *sym.Loaded, job *Job, timeoutMs int, nValid int, seed int64) (res *jobResult) {
	res = &jobResult{job: job}
	defer func() {
		if r := recover(); r != nil {
			buf := make([]byte, 1<<14)
			n := runtime.Stack(buf, false)
			res.err = fmt.Sprintf("internal engine error: %v\n%s", r, buf[:n])
		}
	}()
	fn := l.FindFunc(PkgPath(job.Dir), job.Harness)
	if fn == nil {
		res.err = "harness not found: " + job.Harness
		return
	}
	st := sym.NewStore()
	cmd := solverCmd()
	if job.Solver == "cvc5" {
		cmd = []string{"cvc5", "--incremental", "--produce-models", "--lang", "smt2", fmt.Sprintf("--tlimit-per=%d", timeoutMs*5)}
	}
	if job.Solver == "cvc5-int" {
		cmd = []string{"cvc5", "--incremental", "--produce-models", "--lang", "smt2", "--solve-bv-as-int=sum", fmt.Sprintf("--tlimit-per=%d", timeoutMs*2)}
	}
	sol := sym.NewSolver(st, cmd, timeoutMs)
	defer sol.Close()
	if d := os.Getenv("VERIF_SMTLOG_DIR"); d != "" {
		if f, err := os.Create(filepath.Join(d, sanitize(job.name())+".smt2")); err == nil {
			sol.Log = f
			defer f.Close()
		}
	}
	it := sym.NewInterp(l.Prog, st, sol)
	if err := it.InitPackages(initPkgs); err != nil {
		res.err = "init: " + err.Error()
		return
	}
	opts := sym.JobOpts{MaxPaths: job.MaxPaths, MaxSteps: job.MaxSteps, Timeout: job.Timeout}
	if opts.Timeout == 0 {
		opts.Timeout = 10 * time.Minute
	}
	res.st = it.RunJob(job.name(), fn, job.Params, opts)
	res.stats = it.Stats
	res.vars = map[string]int{}
	for _, v := range st.Vars {
		w := 1
		if v.S.K == sym.SBV {
			w = v.S.W
		} else if v.S.K == sym.SFP {
			w = 64
		}
		res.vars[v.Name] = w
	}
	if job.NoNative {
		return
	}
	// translator validation inputs: the witness plus random assignments
	rng := rand.New(rand.NewSource(seed))
	var models []map[string]uint64
	if res.st.Witness != nil {
		models = append(models, res.st.Witness)
	}
	for k := 0; k < nValid*4 && len(models) < nValid+1; k++ {
		m := map[string]uint64{}
		for name, w := range res.vars {
			if strings.HasPrefix(name, "dig#") || strings.HasPrefix(name, "md5#") {
				continue
			}
			var v uint64
			switch rng.Intn(4) {
			case 0:
				v = uint64(rng.Intn(4))
			case 1:
				v = ^uint64(0) - uint64(rng.Intn(2))
			default:
				v = rng.Uint64()
			}
			if strings.HasSuffix(name, ".len") {
				v = uint64(rng.Intn(40))
			}
			if w < 64 {
				v &= (1 << uint(w)) - 1
			}
			m[name] = v
		}
		models = append(models, m)
	}
	for i, m := range models {
		cr := concRun{id: fmt.Sprintf("%s:%s#v%d", job.Dir, job.name(), i), model: m}
		it2 := sym.NewInterp(l.Prog, st, sol)
		if err := it2.InitPackages(initPkgs); err != nil {
			continue
		}
		it2.Concrete = m
		js := it2.RunJob(job.name(), fn, job.Params, sym.JobOpts{MaxSteps: job.MaxSteps})
		for oc := range js.Outcomes {
			cr.outcome = oc
		}
		for n := range js.Notes {
			if strings.HasPrefix(n, "assert-failed:") {
				cr.failed = append(cr.failed, strings.TrimPrefix(n, "assert-failed:"))
			}
		}
		sort.Strings(cr.failed)
		cr.obs = js.WitnessObs
		if len(js.NotEnc) > 0 {
			cr.outcome = "notenc"
		}
		if cr.outcome == "assume" || cr.outcome == "notenc" || cr.outcome == "abort" {
			if i == 0 && res.st.Witness != nil && cr.outcome == "assume" {
				res.err += " witness model fails an assumption in concrete mode;"
			}
			continue
		}
		res.conc = append(res.conc, cr)
	}
	return
}
