package driver

import (
	"fmt"
	"math/rand"
	"time"
)

func c09Jobs(tier string) []Job {
	js := []Job{
		{Dir: "", Harness: "VH_C09_less", Params: map[string]int{"smpp": 0}, MaxPaths: 4000},
		{Dir: "", Harness: "VH_C09_less", Params: map[string]int{"smpp": 1}, MaxPaths: 4000},
		{Dir: "", Harness: "VH_C09_empty"},
	}
	rng := rand.New(rand.NewSource(9))
	for smpp := 0; smpp <= 1; smpp++ {
		nv := 4
		if smpp == 1 {
			nv = 5
		}
		digits := []int{}
		for d := 1; d <= nv; d++ {
			// GBK (cmpp index 4 = coding 15) needs the GB18030 tables: not encodable, left out
			if smpp == 0 && d == 4 {
				continue
			}
			digits = append(digits, d)
		}
		digits = append(digits, 7)
		var lists []int
		for _, a := range digits {
			lists = append(lists, a)
			for _, b := range digits {
				lists = append(lists, a+8*b)
				for _, c := range digits {
					lists = append(lists, a+8*b+64*c)
				}
			}
		}
		rng.Shuffle(len(lists), func(i, j int) { lists[i], lists[j] = lists[j], lists[i] })
		n := 24
		if tier == "thorough" {
			n = len(lists)
		}
		for _, l := range lists[:n] {
			for class := 0; class <= 3; class++ {
				origin := 0
				if class%2 == 1 {
					origin = digits[rng.Intn(len(digits))]
				}
				js = append(js, Job{Dir: "", Harness: "VH_C09_build", Params: map[string]int{"smpp": smpp, "list": l, "origin": origin, "class": class},
					Name: fmt.Sprintf("build_smpp%d_list%o_origin%d_class%d", smpp, l, origin, class), Weight: 10 + class*5, Timeout: 10 * time.Minute, MaxPaths: 5000})
			}
		}
		// the original coding against every single candidate (two in thorough), for the content no
		// listed coding can take (class 2: the UCS-2 fallback must win whatever the origin is) and
		// for the short one (class 0)
		seen := map[string]bool{}
		for _, j := range js {
			seen[j.Name] = true
		}
		for _, class := range []int{2, 0} {
			for _, o := range digits {
				var ls []int
				for _, a := range digits {
					ls = append(ls, a)
					if tier == "thorough" {
						for _, b := range digits {
							ls = append(ls, a+8*b)
						}
					}
				}
				for _, l := range ls {
					name := fmt.Sprintf("build_smpp%d_list%o_origin%d_class%d", smpp, l, o, class)
					if seen[name] {
						continue
					}
					seen[name] = true
					js = append(js, Job{Dir: "", Harness: "VH_C09_build", Params: map[string]int{"smpp": smpp, "list": l, "origin": o, "class": class},
						Name: name, Weight: 10 + class*5, Timeout: 10 * time.Minute, MaxPaths: 5000})
				}
			}
		}
	}
	return js
}

func init() {
	register(&PropSpec{
		ID:        "C09",
		Jobs:      c09Jobs,
		Functions: []string{"BatchDataCodingEncoder.Build, allDataCodings, findOriginEncoder, newBatchEncoder, encoder.Run, encoder.Result", "encoderOrderBy, batchEncoderSorter.Sort/Len/Less/Swap, byLength, byDataCoding", "datacoding.IsValidProtoDataCoding, Priority() on the real priority maps, NewCMPPCodec/NewSMPPCodec and the codecs' Encode", "sort.Sort (real SSA), samber/lo Filter/Ternary (real SSA)"},
		Stubs:     []string{"errgroup.Group.Go/Wait: closures are recorded and run at Wait in every order (n-way nondeterministic choice)", "map range: every iteration order explored", "logger: no-op"},
		Bounds: map[string]string{
			"comparator": "three encoders with symbolic part counts 0..300 and every valid coding triple: irreflexive, asymmetric, transitive, total on distinct codings, equal to (parts, documented priority)",
			"selection":  "candidate lists of 1..3 codings (duplicates allowed) from the protocol's valid numbers plus one invalid number, GBK excluded; quick: 24 random lists per protocol x 4 content classes, thorough: all lists; original coding none or random, plus every original coding (valid, UCS-2, invalid) against every single candidate (thorough: every pair) for the class-0 and class-2 contents; map order and goroutine completion order exhaustive per request",
			"contents":   "class 0: 'a'+symbolic lower-case letter; class 1/3: 150/170 concrete ASCII letters (part counts differ between codings); class 2: 'a'+U+4E2D",
		},
		Outside: []string{"GBK candidates (GB18030 tables not encoded)", "candidates whose type does not belong to the selected protocol (outside the contract)", "real goroutine interleavings inside errgroup/sync (reduced to completion orders; see C13)"},
	})
}
