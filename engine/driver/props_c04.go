package driver

func init() {
	register(&PropSpec{
		ID: "C04",
		Jobs: func(tier string) []Job {
			var js []Job
			ms := []int{0, 3, 4, 8, 12}
			if tier == "thorough" {
				ms = []int{0, 1, 2, 3, 4, 5, 7, 8, 9, 12, 16, 24}
			}
			for codec := 0; codec <= 1; codec++ {
				for _, m := range ms {
					for _, cur := range []int{0, 3} {
						if cur > m {
							continue
						}
						js = append(js, Job{Dir: "codec", Harness: "VH_C04_decode", Params: map[string]int{"M": m + cur, "cur": cur, "codec": codec}, Weight: m})
					}
				}
				for _, m := range []int{8, 12, 14} {
					js = append(js, Job{Dir: "codec", Harness: "VH_C04_decode_two", Params: map[string]int{"M": m, "codec": codec}, Weight: m + 5})
				}
				hm := []int{8, 10, 13}
				if tier == "thorough" {
					hm = []int{8, 9, 10, 11, 12, 13, 14, 16}
				}
				for _, m := range hm {
					js = append(js, Job{Dir: "codec", Harness: "VH_C04_history", Params: map[string]int{"M": m, "codec": codec}, Weight: m * 4, MaxPaths: 40000})
				}
				bm := []int{0, 3, 4, 6, 10}
				if tier == "thorough" {
					bm = []int{0, 1, 2, 3, 4, 5, 6, 8, 10, 12}
				}
				for _, m := range bm {
					for fault := 0; fault <= 1; fault++ {
						chunks := 3
						if tier == "thorough" {
							chunks = 5
						}
						for dataerr := 0; dataerr <= 1; dataerr++ {
							js = append(js, Job{Dir: "codec", Harness: "VH_C04_blocked", Params: map[string]int{"M": m, "codec": codec, "fault": fault, "chunks": chunks, "dataerr": dataerr}, Weight: m * 3, MaxPaths: 40000})
						}
					}
				}
			}
			return js
		},
		Functions: []string{"codec.CMPPCodec.Decode/DecodeBlocked", "codec.SMPPCodec.Decode/DecodeBlocked", "io.ReadFull/ReadAtLeast (real SSA)", "binary.BigEndian.Uint32 (real SSA)"},
		Stubs:     []string{"ConnReader: harness type implementing the documented contract over a symbolic stream (cursor, arrived count, chunk sizes and the end/fault offset are solver variables)"},
		Bounds: map[string]string{
			"Decode":        "one step from an arbitrary reader state: buffer of M octets (quick M in {0,3,4,8,12} after a cursor of 0 or 3; thorough up to 24), every octet and the number of arrived octets symbolic; the 32-bit length prefix is therefore symbolic over all values",
			"two frames":    "two consecutive frames in one buffer of 8/12/14 octets, both prefixes symbolic",
			"history":       "one codec value polled after each of three arrivals (a1 <= a2 <= M, symbolic) over a stream that is exactly two frames of symbolic lengths, M in {8,10,13} (thorough 8..16): frames come out once, in order, as soon as complete",
			"DecodeBlocked": "the end/fault reported either by a separate empty Read or together with the last octets (both reader behaviours); streams of M octets (quick M <= 10, thorough <= 12) ending (EOF) or failing at every offset, the first 3 (thorough 5) reads returning arbitrary chunk sizes; declared lengths up to M+2",
		},
		Outside: []string{"real sockets", "frames longer than the modelled stream in the blocking reader (its allocation of the declared length is the frame itself)", "prefix >= 2^31 on 32-bit platforms"},
		Assumptions: []string{"one step from an arbitrary reader state covers every arrival history only while the codec structs keep no state between calls; the history jobs drop that assumption for two-frame streams"},
	})
}
