package driver

import "time"

func c05Jobs(tier string) []Job {
	var js []Job
	for which := 0; which <= 4; which++ {
		ctxs := []int{0, 1}
		if tier == "thorough" && (which == 0 || which == 2) {
			ctxs = []int{0, 1, 2}
		}
		for _, c := range ctxs {
			js = append(js, Job{Dir: "datacoding", Harness: "VH_C05_roundtrip", Params: map[string]int{"which": which, "ctx": c}, Weight: 50, Timeout: 15 * time.Minute, MaxPaths: 20000})
		}
	}
	for _, n := range []int{0, 1, 2, 3} {
		js = append(js, Job{Dir: "datacoding", Harness: "VH_C05_ascii_bytes", Params: map[string]int{"n": n}})
	}
	for which := 0; which <= 6; which++ {
		js = append(js, Job{Dir: "", Harness: "VH_C05_content_decoders", Params: map[string]int{"which": which}, Weight: 40, Timeout: 15 * time.Minute, MaxPaths: 20000})
	}
	js = append(js, Job{Dir: "", Harness: "VH_C05_unsupported", Params: map[string]int{"smpp": 0}})
	js = append(js, Job{Dir: "", Harness: "VH_C05_unsupported", Params: map[string]int{"smpp": 1}})
	js = append(js, Job{Dir: "cmpp", Harness: "VH_C05_utf8_to_ucs2", Weight: 30})
	return js
}

func init() {
	register(&PropSpec{
		ID:        "C05",
		Jobs:      c05Jobs,
		Functions: []string{"datacoding.Ascii/Latin1/UCS2/GSM7Unpacked/GSM7Packed Encode/Decode", "x/text: transform.Bytes, encoding/unicode UTF-16 encoder/decoder, encoding/charmap Windows-1252 encoder/decoder (real SSA, tables from the packages' own initialisers)", "gsm7encoding Encode/Decode/Pack/Unpack and transformers", "GetCMPPCodec/GetSMPPCodec, DecodeCMPPCContent, DecodeSMPPCContent", "cmpp.Utf8ToUcs2, Utf8ToUcs2Back, Utf8ToUcs2Pooled; unicode/utf8, unicode/utf16 (real SSA)"},
		Stubs:     []string{"range over string / string(rune) / []rune(s): built-in UTF-8 semantics of the engine (forks on the length class)", "bytebufferpool: fresh buffer", "io.ReadAll, transform.Reader: real SSA"},
		Bounds: map[string]string{
			"texts": "one symbolic scalar value r over all 0x110000-2048 code points, alone and between two ASCII letters (thorough: two symbolic runes for ASCII and UCS-2)",
			"content decoders": "texts 'a'+r for every BMP scalar r through every supported CMPP/SMPP coding except GBK",
			"unsupported numbers": "every other uint8 (CMPP) / int (SMPP) coding number, symbolic",
		},
		Outside: []string{"GB18030 (x/text's 24k-entry tables: only enumerable, see DESIGN.md section 9)", "strings of more than 3 characters (buffer-growth loops of the transformers)"},
	})
}
