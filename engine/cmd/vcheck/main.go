package main

import (
	"encoding/json"
	"flag"

	"verif/engine/driver"
	"fmt"
	"os"
	"sort"
	"strconv"
	"strings"
	"time"

	"verif/engine/sym"
)

func main() {
	if len(os.Args) < 2 {
		fmt.Println("usage: vcheck dev|run|replay|selftest ...")
		os.Exit(2)
	}
	switch os.Args[1] {
	case "dev":
		dev(os.Args[2:])
	case "run":
		os.Exit(run(os.Args[2:]))
	case "replay":
		os.Exit(replay(os.Args[2:]))
	case "gen":
		for d, files := range driver.GenerateHarnesses() {
			for n, b := range files {
				out := os.Args[2] + "/" + strings.ReplaceAll(d, "/", "_") + "_" + n
				os.WriteFile(out, b, 0o644)
				fmt.Println(out)
			}
		}
	default:
		fmt.Println("unknown command")
		os.Exit(2)
	}
}

// dev <pkgpath> <harness> [k=v ...] with HARNESS_FILES=virtualpath=realpath,...
func dev(args []string) {
	overlay := map[string][]byte{}
	for _, kv := range strings.Split(os.Getenv("HARNESS_FILES"), ",") {
		if kv == "" {
			continue
		}
		p := strings.SplitN(kv, "=", 2)
		b, err := os.ReadFile(p[1])
		if err != nil {
			panic(err)
		}
		overlay[p[0]] = b
	}
	t0 := time.Now()
	l, err := sym.Load("/repo", overlay)
	if err != nil {
		fmt.Println(err)
		os.Exit(2)
	}
	fmt.Printf("loaded in %v\n", time.Since(t0))
	fn := l.FindFunc(args[0], args[1])
	if fn == nil {
		fmt.Println("harness not found")
		os.Exit(2)
	}
	params := map[string]int{}
	for _, kv := range args[2:] {
		p := strings.SplitN(kv, "=", 2)
		v, _ := strconv.Atoi(p[1])
		params[p[0]] = v
	}
	st := sym.NewStore()
	sol := sym.NewSolver(st, []string{"z3", "-in"}, 60000)
	if os.Getenv("SMTLOG") != "" {
		f, _ := os.Create(os.Getenv("SMTLOG"))
		sol.Log = f
	}
	it := sym.NewInterp(l.Prog, st, sol)
	t1 := time.Now()
	if err := it.InitPackages([]string{"io", "bytes", "strings", "unicode/utf8", "encoding/binary", "encoding/hex"}); err != nil {
		fmt.Println("init:", err)
		os.Exit(2)
	}
	fmt.Printf("init in %v\n", time.Since(t1))
	j := it.RunJob(args[1], fn, params, sym.JobOpts{})
	fmt.Printf("paths=%d outcomes=%v obligations=%d discharged=%d queries=%d solver=%v wall=%v instrs=%d\n", j.Paths, j.Outcomes, j.Obligations, j.Discharged, j.Queries, j.SolverTime, j.Wall, j.Instrs)
	fmt.Printf("reached=%v notes=%v inconclusive=%v notenc=%v stats=%+v\n", j.Reached, j.Notes, j.Inconclusive, j.NotEnc, it.Stats)
	for _, v := range j.Violations {
		fmt.Printf("VIOLATION label=%s msg=%s\n", v.Label, v.Msg)
		keys := []string{}
		for k := range v.Model {
			keys = append(keys, k)
		}
		sort.Strings(keys)
		for _, k := range keys {
			if v.Model[k] != 0 {
				fmt.Printf("   %s = %d (0x%x)\n", k, v.Model[k], v.Model[k])
			}
		}
	}
	for id, h := range j.KFHits {
		fmt.Printf("KNOWN-FINDING hit %s label=%s count=%d\n", id, h.Label, h.Count)
	}
	sol.Close()
}

func run(args []string) int {
	fs := flag.NewFlagSet("run", flag.ExitOnError)
	prop := fs.String("property", "", "property id")
	tier := fs.String("tier", "", "quick|thorough")
	only := fs.String("only", "", "job name filter")
	verbose := fs.Bool("v", false, "verbose")
	workers := fs.Int("workers", 0, "workers")
	nonative := fs.Bool("no-native", false, "skip translator validation")
	fs.Parse(args)
	if *tier == "" {
		*tier = os.Getenv("VERIF_TIER")
	}
	if *tier == "" {
		*tier = "quick"
	}
	seed := int64(1)
	if s := os.Getenv("VERIF_SEED"); s != "" {
		if v, err := strconv.ParseInt(s, 10, 64); err == nil {
			seed = v
		}
	}
	return driver.RunProperty(driver.RunOpts{Prop: *prop, Tier: *tier, Seed: seed, Only: *only, Verbose: *verbose, Workers: *workers, NoNative: *nonative})
}

func replay(args []string) int {
	if len(args) < 1 {
		fmt.Println("usage: vcheck replay <file>")
		return 2
	}
	b, err := os.ReadFile(args[0])
	if err != nil {
		fmt.Println(err)
		return 2
	}
	var v struct {
		Job     string            `json:"job"`
		Harness string            `json:"harness"`
		Dir     string            `json:"dir"`
		Label   string            `json:"label"`
		Params  map[string]int    `json:"params"`
		Model   map[string]uint64 `json:"model"`
	}
	if err := json.Unmarshal(b, &v); err != nil {
		fmt.Println(err)
		return 2
	}
	ov, err := driver.BuildOverlay()
	if err != nil {
		fmt.Println(err)
		return 2
	}
	to := 20000
	if v.Label == "unwind" {
		to = 5000
	}
	res, err := driver.RunNative(ov, []driver.NativeCase{{ID: "replay", Harness: v.Harness, Params: v.Params, Model: v.Model, TimeoutMs: to, Dir: v.Dir}}, false)
	if err != nil {
		fmt.Println(err)
		return 2
	}
	r := res["replay"]
	out, _ := json.MarshalIndent(r, "", " ")
	fmt.Printf("native replay of %s (label %s):\n%s\n", v.Job, v.Label, out)
	if driver.Confirms(v.Label, r) {
		fmt.Println("REPRODUCED")
		return 1
	}
	fmt.Println("not reproduced")
	return 0
}
