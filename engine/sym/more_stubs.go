package sym

func registerMoreStubs(it *Interp) {
}
