package sym

import (
	"fmt"
	"go/types"
	"strconv"

	"golang.org/x/tools/go/ssa"
)

// ---------------------------------------------------------------------------
// time: an instant is (wall, ext, loc) as in the real struct; its calendar fields are
// arbitrary values in their documented ranges, fixed per instant (uninterpreted functions of
// the instant). Durations are executed from the real SSA.

func (it *Interp) timeKey(t *Agg) string {
	w, _ := t.Cells[0].(*Term)
	e, _ := t.Cells[1].(*Term)
	return fmt.Sprintf("T%d_%d", w.ID, e.ID)
}

func (it *Interp) freshTime(name string) *Agg {
	ext := it.symVar(name+".ext", 64)
	if it.Concrete != nil {
		ext = it.St.Const(64, ext.Val&(1<<61-1))
	} else {
		// keep instant arithmetic far from the 64-bit wrap-around (the real type saturates)
		it.pushPC(it.St.Ult(ext, it.St.Const(64, 1<<61)))
	}
	return &Agg{Cells: []Value{it.symVar(name+".wall", 64), ext, &Ptr{}}}
}

// timeField returns the calendar field of an instant, constrained to [lo,hi].
func (it *Interp) timeField(t *Agg, field string, lo, hi uint64) *Term {
	name := it.timeKey(t) + "." + field
	if it.Concrete != nil {
		v := it.Concrete[name]
		if v < lo {
			v = lo
		}
		if v > hi {
			v = hi
		}
		return it.c64(int64(v))
	}
	// lo + (u mod (hi-lo+1)): every value of the range is reachable and the range is
	// visible to the syntactic interval analysis (no path-condition constraint needed)
	u := it.St.Var(name, BV(8))
	return it.St.Add(it.c64(int64(lo)), it.St.Zext(it.St.URem(u, it.St.Const(8, hi-lo+1)), 64))
}

var timeFields = map[string][2]uint64{"month": {1, 12}, "day": {1, 31}, "hour": {0, 23}, "minute": {0, 59}, "second": {0, 59}, "year2": {0, 99}}

func registerMoreStubs(it *Interp) {
	s := it.stubs
	s["time.Now"] = func(it *Interp, fr *frame, cc *ssa.CallCommon, a []Value) Value {
		it.freshN["now"]++
		return it.freshTime(fmt.Sprintf("now%d", it.freshN["now"]))
	}
	field := func(f string) StubFn {
		return func(it *Interp, fr *frame, cc *ssa.CallCommon, a []Value) Value {
			r := timeFields[f]
			return it.timeField(a[0].(*Agg), f, r[0], r[1])
		}
	}
	s["(time.Time).Month"] = field("month")
	s["(time.Time).Day"] = field("day")
	s["(time.Time).Hour"] = field("hour")
	s["(time.Time).Minute"] = field("minute")
	s["(time.Time).Second"] = field("second")
	s["(time.Time).UTC"] = func(it *Interp, fr *frame, cc *ssa.CallCommon, a []Value) Value { return a[0] }
	// instants: ext holds an abstract nanosecond count, so Add/Before/Sub/Equal are exact
	// integer arithmetic (time.Time's saturation and monotonic clock are ignored)
	s["(time.Time).Add"] = func(it *Interp, fr *frame, cc *ssa.CallCommon, a []Value) Value {
		t := a[0].(*Agg)
		d := a[1].(*Term)
		if d.IsConst() && d.Val == 0 {
			return t
		}
		return &Agg{Cells: []Value{t.Cells[0], it.St.Add(t.Cells[1].(*Term), d), t.Cells[2]}}
	}
	s["(time.Time).Before"] = func(it *Interp, fr *frame, cc *ssa.CallCommon, a []Value) Value {
		return it.St.Slt(a[0].(*Agg).Cells[1].(*Term), a[1].(*Agg).Cells[1].(*Term))
	}
	s["(time.Time).After"] = func(it *Interp, fr *frame, cc *ssa.CallCommon, a []Value) Value {
		return it.St.Slt(a[1].(*Agg).Cells[1].(*Term), a[0].(*Agg).Cells[1].(*Term))
	}
	s["(time.Time).Equal"] = func(it *Interp, fr *frame, cc *ssa.CallCommon, a []Value) Value {
		return it.St.Eq(a[0].(*Agg).Cells[1].(*Term), a[1].(*Agg).Cells[1].(*Term))
	}
	s["(time.Time).Sub"] = func(it *Interp, fr *frame, cc *ssa.CallCommon, a []Value) Value {
		return it.St.Sub(a[0].(*Agg).Cells[1].(*Term), a[1].(*Agg).Cells[1].(*Term))
	}
	// time.ParseDuration: the duration IS the symbolic input ("dur"), the error an arbitrary flag
	s["time.ParseDuration"] = func(it *Interp, fr *frame, cc *ssa.CallCommon, a []Value) Value {
		var bad *Term
		if it.Concrete != nil {
			bad = it.St.Bool(it.Concrete["parse-err"] != 0)
		} else {
			bad = it.St.Var("parse-err", BoolSort)
		}
		if it.branchOrConst(bad) {
			return Tuple{it.c64(0), it.newError("time: invalid duration")}
		}
		return Tuple{it.symDuration(), it.nilError()}
	}
	s["(time.Time).Format"] = func(it *Interp, fr *frame, cc *ssa.CallCommon, a []Value) Value {
		t := a[0].(*Agg)
		layout, ok := it.concreteStr(a[1].(*Str))
		if !ok {
			return it.opaqueStr("time.Format")
		}
		var parts []*Str
		numeric := true
		val := it.c64(0)
		i := 0
		for i < len(layout) {
			if i+2 <= len(layout) {
				var f string
				switch layout[i : i+2] {
				case "06":
					f = "year2"
				case "01":
					f = "month"
				case "02":
					f = "day"
				case "15":
					f = "hour"
				case "04":
					f = "minute"
				case "05":
					f = "second"
				}
				if f != "" {
					r := timeFields[f]
					fv := it.timeField(t, f, r[0], r[1])
					parts = append(parts, it.formatInt(fv, false, 2, true))
					val = it.St.Add(it.St.Mul(val, it.c64(100)), fv)
					i += 2
					continue
				}
			}
			c := layout[i]
			if c >= '0' && c <= '9' || c >= 'A' && c <= 'Z' || c >= 'a' && c <= 'z' {
				return it.opaqueStr("time.Format:" + layout)
			}
			parts = append(parts, it.constStr(string(c)))
			numeric = false
			i++
		}
		if len(parts) == 0 {
			return it.constStr("")
		}
		res := it.strConcat(parts)
		if numeric {
			if it.fmtTimeVals == nil {
				it.fmtTimeVals = map[*Object]*Term{}
			}
			it.fmtTimeVals[res.Obj] = val
		}
		return res
	}
	// Duration.Hours/Minutes/Seconds: executed from the real time SSA (floating point) unless
	// the harness switched to contract mode (vFPContracts): then they return an abstract
	// float whose integer part (and that of its quotient by 24) is the integer quotient
	// proved by the lemma jobs (C19: contract_proved_by VH_C19_lemma).
	durStub := func(name string, unit int64, divs map[uint64]int64) {
		fn := "(time.Duration)." + name
		s[fn] = func(it *Interp, fr *frame, cc *ssa.CallCommon, a []Value) Value {
			d := a[0].(*Term)
			if !it.FPContracts || d.IsConst() {
				f := it.Prog.ImportedPackage("time").Type("Duration")
				m := it.Prog.LookupMethod(f.Type(), f.Package().Pkg, name)
				return it.callBody(fr, m, a, nil, cc)
			}
			it.freshN["fp"]++
			v := it.St.Var(fmt.Sprintf("fp#%s%d_%d", name, it.freshN["fp"], d.ID), FPSort)
			if it.fpInt == nil {
				it.fpInt = map[*Term]*Term{}
				it.fpDiv = map[*Term]map[uint64]*Term{}
			}
			it.fpInt[v] = it.St.SDiv(d, it.c64(unit))
			it.fpDiv[v] = map[uint64]*Term{}
			for c, u := range divs {
				it.fpDiv[v][c] = it.St.SDiv(d, it.c64(u))
			}
			// the rest of the contract (asserted only when the float is used for more than
			// its integer part - fpForce): q <= v < q+1, and v >= q+0.5 exactly when the
			// remainder is at least half a unit (mirrored for negative durations)
			st := it.St
			q, r := it.fpInt[v], st.SRem(d, it.c64(unit))
			fq := st.IntToF(q, true)
			pos := st.And(st.And(st.fcmp(OFLe, fq, v), st.fcmp(OFLt, v, st.IntToF(st.Add(q, it.c64(1)), true))),
				st.Eq(st.fcmp(OFLe, st.fbin(OFAdd, fq, st.FConst(fbitsOf(0.5))), v), st.Sle(it.c64(unit), st.Mul(r, it.c64(2)))))
			neg := st.And(st.fcmp(OFLt, st.IntToF(st.Sub(q, it.c64(1)), true), v), st.fcmp(OFLe, v, fq))
			if it.fpLazy == nil {
				it.fpLazy = map[*Term]*Term{}
			}
			it.fpLazy[v] = st.Ite(st.Sle(it.c64(0), d), pos, neg)
			return v
		}
	}
	durStub("Hours", 3600000000000, map[uint64]int64{fbitsOf(24): 86400000000000})
	durStub("Minutes", 60000000000, nil)
	durStub("Seconds", 1000000000, nil)
	// GSM 7-bit text -> septets: real code, except for texts created by vGSM7Text
	gsmPkg := repoModule + "/datacoding/gsm7encoding"
	s[gsmPkg+".Encode"] = func(it *Interp, fr *frame, cc *ssa.CallCommon, a []Value) Value {
		x := a[0].(*Str)
		if v, ok := it.gsm7Text[x.Obj]; ok && x.Off.IsConst() && x.Off.Val == 0 {
			if x.Len.IsConst() && x.Len.Val == 0 {
				z := it.c64(0)
				return Tuple{&Slice{Off: z, Len: z, Cap: z, ECells: 1}, it.nilError()}
			}
			o := it.copyView(v)
			return Tuple{&Slice{Obj: o, Off: it.c64(0), Len: v.ln, Cap: v.ln, ECells: 1}, it.nilError()}
		}
		return it.callBody(fr, it.pkgFunc(gsmPkg, "Encode"), a, nil, cc)
	}
	s[gsmPkg+".IsValidGSM7String"] = func(it *Interp, fr *frame, cc *ssa.CallCommon, a []Value) Value {
		x := a[0].(*Str)
		if _, ok := it.gsm7Text[x.Obj]; ok {
			return it.St.T
		}
		return it.callBody(fr, it.pkgFunc(gsmPkg, "IsValidGSM7String"), a, nil, cc)
	}
	// sort.Slice / sort.SliceStable: insertion sort over the real less closure - what the
	// runtime does itself for up to 12 elements (longer slices: not encodable)
	sortSlice := func(it *Interp, fr *frame, cc *ssa.CallCommon, a []Value) Value {
		ifc, ok := a[0].(*Iface)
		if !ok || ifc.T == nil {
			it.throw("reflect: call of Swapper on zero Value")
		}
		sl, ok := ifc.V.(*Slice)
		if !ok {
			panic(pathEnd{"notenc", "sort.Slice on a non-slice"})
		}
		less := a[1].(*Func)
		n := int(it.concretize(sl.Len))
		if n > 12 {
			panic(pathEnd{"notenc", "sort.Slice over more than 12 elements"})
		}
		if n < 2 {
			return nil
		}
		off := int(it.concretize(sl.Off))
		for i := 1; i < n; i++ {
			for j := i; j > 0; j-- {
				r := it.callValue(fr, less, []Value{it.c64(int64(j)), it.c64(int64(j - 1))}, nil).(*Term)
				if !it.branchOrConst(r) {
					break
				}
				for c := 0; c < sl.ECells; c++ {
					x, y := off+j*sl.ECells+c, off+(j-1)*sl.ECells+c
					vx, vy := sl.Obj.Cells[x], sl.Obj.Cells[y]
					it.setCell(sl.Obj, x, vy)
					it.setCell(sl.Obj, y, vx)
				}
			}
		}
		return nil
	}
	s["sort.Slice"] = sortSlice
	s["sort.SliceStable"] = sortSlice
	// IEEE bit pattern of a float64 and back (math.Round, math.Trunc, ... are written with them)
	s["math.Float64bits"] = func(it *Interp, fr *frame, cc *ssa.CallCommon, a []Value) Value {
		x := a[0].(*Term)
		it.fpForce(x)
		if x.IsConst() {
			return it.St.Const(64, x.Val)
		}
		it.freshN["f64bits"]++
		b := it.St.Var(fmt.Sprintf("f64bits#%d_%d", it.freshN["f64bits"], x.ID), BV(64))
		// b is the bit pattern of x (NaN payloads are not distinguished)
		it.pushPC(it.St.Eq(it.St.FOfBits(b), x))
		return b
	}
	s["math.Float64frombits"] = func(it *Interp, fr *frame, cc *ssa.CallCommon, a []Value) Value {
		return it.St.FOfBits(a[0].(*Term))
	}
	s["strconv.Atoi"] = func(it *Interp, fr *frame, cc *ssa.CallCommon, a []Value) Value {
		x := a[0].(*Str)
		if cs, ok := it.concreteStr(x); ok {
			v, err := strconv.Atoi(cs)
			if err != nil {
				return Tuple{it.c64(0), it.newError("strconv.Atoi: parsing " + strconv.Quote(cs) + ": invalid syntax")}
			}
			return Tuple{it.c64(int64(v)), it.nilError()}
		}
		if tv, ok := it.fmtTimeVals[x.Obj]; ok && x.Off.IsConst() && x.Off.Val == 0 && x.Len.IsConst() && int(x.Len.Val) == len(x.Obj.Cells) {
			// the decimal rendering of a clock reading: its value is known exactly
			digs := make([]*Term, len(x.Obj.Cells))
			for i := range digs {
				digs[i] = x.Obj.Cells[i].(*Term)
			}
			if it.atoiMap == nil {
				it.atoiMap = map[*Term][]*Term{}
			}
			it.atoiMap[tv] = digs
			if _, h := it.St.rangeOf(tv); h <= mask(32) {
				// also the value after an (exact) conversion to a 32-bit integer
				it.atoiMap[it.St.Extract(tv, 31, 0)] = digs
			}
			return Tuple{tv, it.nilError()}
		}
		n := int(it.concretize(x.Len))
		if n == 0 || n > 18 {
			return Tuple{it.c64(0), it.newError("strconv.Atoi: invalid syntax")}
		}
		v := it.viewStr(x)
		valid := it.St.T
		sum := it.c64(0)
		for i := 0; i < n; i++ {
			c := it.cellAtI(v, i)
			valid = it.St.And(valid, it.between(c, '0', '9'))
			sum = it.St.Add(it.St.Mul(sum, it.c64(10)), it.St.Zext(it.St.Sub(c, it.St.Const(8, '0')), 64))
		}
		if it.branchOrConst(valid) {
			if it.atoiMap == nil {
				it.atoiMap = map[*Term][]*Term{}
			}
			digs := make([]*Term, n)
			for i := 0; i < n; i++ {
				digs[i] = it.cellAtI(v, i)
			}
			it.atoiMap[sum] = digs
			return Tuple{sum, it.nilError()}
		}
		return Tuple{it.c64(0), it.newError("strconv.Atoi: invalid syntax")}
	}
	// fmt.Sscanf for formats made of %Nd / %0Nd verbs only, on inputs that consist of decimal
	// digits only (the fixed-width decimal ids of this library): each verb takes up to N digits
	// (at least one, else "unexpected EOF"), trailing input is ignored. Anything else - other
	// verbs, literal text, signs, spaces, underscores in the input - is outside the model.
	s["fmt.Sscanf"] = func(it *Interp, fr *frame, cc *ssa.CallCommon, a []Value) Value {
		st := it.St
		format, ok := it.concreteStr(a[1].(*Str))
		if !ok {
			panic(pathEnd{"notenc", "fmt.Sscanf with a symbolic format"})
		}
		var widths []int
		for i := 0; i < len(format); {
			if format[i] != '%' {
				panic(pathEnd{"notenc", "fmt.Sscanf format with literal text: " + format})
			}
			i++
			w := 0
			for i < len(format) && format[i] >= '0' && format[i] <= '9' {
				w = w*10 + int(format[i]-'0')
				i++
			}
			if i >= len(format) || format[i] != 'd' || w == 0 || w > 18 {
				panic(pathEnd{"notenc", "fmt.Sscanf format outside the %Nd model: " + format})
			}
			i++
			widths = append(widths, w)
		}
		args := it.anyArgs(a[2])
		x := a[0].(*Str)
		L := int(it.concretize(x.Len))
		v := it.viewStr(x)
		alldig := st.T
		for i := 0; i < L; i++ {
			alldig = st.And(alldig, it.between(it.cellAtI(v, i), '0', '9'))
		}
		if !it.branchOrConst(alldig) {
			panic(pathEnd{"notenc", "fmt.Sscanf input with a non-digit (outside the stub's domain)"})
		}
		pos := 0
		for k, w := range widths {
			if k >= len(args) {
				return Tuple{it.c64(int64(k)), it.newError("too few operands for format '%" + "d'")}
			}
			if pos >= L {
				return Tuple{it.c64(int64(k)), it.newError("unexpected EOF")}
			}
			n := w
			if L-pos < n {
				n = L - pos
			}
			// value = sum digit_i * 10^i, built like formatInt builds it (same term when the
			// digits come from there)
			sum := it.c64(0)
			p10 := uint64(1)
			for i := 0; i < n; i++ {
				c := it.cellAtI(v, pos+n-1-i)
				var d *Term
				if c.Op == OAdd && c.Args[1].IsConst() && c.Args[1].Val == '0' {
					d = c.Args[0]
				} else {
					d = st.Sub(c, st.Const(8, '0'))
				}
				sum = st.Add(sum, st.Mul(st.Zext(d, 64), st.Const(64, p10)))
				p10 *= 10
			}
			pos += n
			if v, ok := it.digitSum[sum]; ok {
				sum = v // the path condition holds sum == v (formatInt)
			}
			ptr, ok := args[k].V.(*Ptr)
			if !ok || args[k].T == nil {
				panic(pathEnd{"notenc", "fmt.Sscanf operand is not a pointer"})
			}
			et := args[k].T.Underlying().(*types.Pointer).Elem()
			b, ok := et.Underlying().(*types.Basic)
			if !ok || b.Info()&types.IsInteger == 0 {
				panic(pathEnd{"notenc", "fmt.Sscanf operand is not an integer pointer"})
			}
			wbits := it.sortOf(et).W
			if wbits < 64 {
				// a value that does not fit the operand is a range error in the real scanner
				_, hi := st.rangeOf(sum)
				if hi > mask(wbits-btoi(b.Info()&types.IsUnsigned == 0)) {
					panic(pathEnd{"notenc", "fmt.Sscanf into a narrow integer that may overflow"})
				}
				it.store(ptr, st.Extract(sum, wbits-1, 0), et)
			} else {
				it.store(ptr, sum, et)
			}
		}
		if len(args) > len(widths) {
			return Tuple{it.c64(int64(len(widths))), it.newError("too many operands")}
		}
		return Tuple{it.c64(int64(len(widths))), it.nilError()}
	}
	s["strconv.Itoa"] = func(it *Interp, fr *frame, cc *ssa.CallCommon, a []Value) Value {
		return it.formatInt(a[0].(*Term), true, 0, false)
	}
	s["strconv.FormatUint"] = func(it *Interp, fr *frame, cc *ssa.CallCommon, a []Value) Value {
		base := a[1].(*Term)
		if !base.IsConst() || base.Val != 10 {
			return it.opaqueStr("FormatUint")
		}
		return it.formatInt(a[0].(*Term), false, 0, false)
	}
}

func fbitsOf(f float64) uint64 { return fbits(f) }

// fpForce asserts the pending contract clauses of an abstract float (vFPContracts) the first
// time it is used for anything but its integer part.
func (it *Interp) fpForce(x *Term) {
	if c, ok := it.fpLazy[x]; ok {
		delete(it.fpLazy, x)
		it.pushPC(c)
	}
}

// symDuration: the symbolic duration handed out by the ParseDuration stub:
// (+/-) (dursecs * 1e9 + durfrac) with dursecs a 32-bit second count and durfrac < 1e9;
// the sign is the job parameter durneg. The harness builds the same value natively.
func (it *Interp) symDuration() *Term {
	st := it.St
	secs := st.Zext(it.symVar("dursecs", 32), 64)
	d := st.Mul(secs, it.c64(1000000000))
	fr := it.symVar("durfrac", 32)
	if k, ok := it.known[fr]; ok {
		fr = k
	}
	fr = st.URem(fr, st.Const(32, 1000000000)) // (also in concrete mode: the harness reduces durfrac the same way)
	d = st.Add(d, st.Zext(fr, 64))
	if it.Params["durneg"] == 1 {
		d = st.Neg(d)
	}
	return d
}
