package sym

import (
	"bufio"
	"fmt"
	"io"
	"math"
	"os/exec"
	"strconv"
	"strings"
	"time"
)

func f64(b uint64) float64   { return math.Float64frombits(b) }
func fbits(f float64) uint64 { return math.Float64bits(f) }
func fceil(f float64) float64  { return math.Ceil(f) }
func ffloor(f float64) float64 { return math.Floor(f) }
func ftrunc(f float64) float64 { return math.Trunc(f) }

type Result int

const (
	Unsat Result = iota
	Sat
	Unknown
)

func (r Result) String() string { return [...]string{"unsat", "sat", "unknown"}[r] }

// Solver is one long-lived SMT solver process speaking SMT-LIB2 on stdin/stdout.
type Solver struct {
	Cmd       []string
	TimeoutMs int
	proc      *exec.Cmd
	in        io.WriteCloser
	out       *bufio.Reader
	gen       int
	store     *Store
	declared  map[int]bool // var IDs declared in this generation
	Queries   int
	SatN      int
	UnsatN    int
	UnknownN  int
	Errors    int
	Time      time.Duration
	Log       io.Writer // optional transcript
	defsSince int
}

var genCounter = 0

func NewSolver(store *Store, cmd []string, timeoutMs int) *Solver {
	return &Solver{Cmd: cmd, TimeoutMs: timeoutMs, store: store}
}

func (s *Solver) start() error {
	genCounter++
	s.gen = genCounter
	s.declared = map[int]bool{}
	s.proc = exec.Command(s.Cmd[0], s.Cmd[1:]...)
	var err error
	s.in, err = s.proc.StdinPipe()
	if err != nil {
		return err
	}
	o, err := s.proc.StdoutPipe()
	if err != nil {
		return err
	}
	s.proc.Stderr = nil
	s.out = bufio.NewReaderSize(o, 1<<20)
	if err := s.proc.Start(); err != nil {
		return err
	}
	if strings.Contains(s.Cmd[0], "cvc5") {
		s.send("(set-logic ALL)\n")
	}
	s.send("(set-option :print-success false)\n")
	if strings.Contains(s.Cmd[0], "z3") {
		s.send(fmt.Sprintf("(set-option :timeout %d)\n", s.TimeoutMs))
	}
	s.send("(set-option :produce-models true)\n")
	s.defsSince = 0
	return nil
}

func (s *Solver) Close() {
	if s.proc != nil {
		s.in.Close()
		s.proc.Process.Kill()
		s.proc.Wait()
		s.proc = nil
	}
}

// Restart kills the solver process; definitions are re-sent lazily.
func (s *Solver) Restart() { s.Close() }

func (s *Solver) send(txt string) {
	if s.Log != nil {
		io.WriteString(s.Log, txt)
	}
	io.WriteString(s.in, txt)
}

// define makes sure t (and everything below it) is defined in the solver.
func (s *Solver) define(t *Term, sb *strings.Builder) {
	if t.Op == OConst {
		return
	}
	if t.gen == s.gen {
		return
	}
	// iterative post-order to avoid very deep recursion
	type frame struct {
		t *Term
		i int
	}
	stack := []frame{{t, 0}}
	for len(stack) > 0 {
		f := &stack[len(stack)-1]
		if f.i < len(f.t.Args) {
			a := f.t.Args[f.i]
			f.i++
			if a.Op != OConst && a.gen != s.gen {
				stack = append(stack, frame{a, 0})
			}
			continue
		}
		x := f.t
		stack = stack[:len(stack)-1]
		if x.gen == s.gen {
			continue
		}
		x.gen = s.gen
		s.defsSince++
		if x.Op == OVar {
			fmt.Fprintf(sb, "(declare-const %s %s)\n", x.smtName(), x.S.String())
		} else {
			fmt.Fprintf(sb, "(define-fun %s () %s %s)\n", x.smtName(), x.S.String(), x.smtBody())
		}
	}
}

// Check decides the conjunction of the assertions. If wantModel and the result is
// sat, the values of all variables in vars are returned.
func (s *Solver) Check(asserts []*Term, vars []*Term) (Result, []uint64) {
	for _, a := range asserts {
		if a.IsFalse() {
			return Unsat, nil
		}
	}
	if s.proc == nil {
		if err := s.start(); err != nil {
			panic(err)
		}
	}
	t0 := time.Now()
	defer func() { s.Time += time.Since(t0) }()
	s.Queries++
	var sb strings.Builder
	for _, a := range asserts {
		s.define(a, &sb)
	}
	for _, v := range vars {
		s.define(v, &sb)
	}
	sb.WriteString("(push 1)\n")
	for _, a := range asserts {
		if a.IsTrue() {
			continue
		}
		fmt.Fprintf(&sb, "(assert %s)\n", a.smtName())
	}
	sb.WriteString("(check-sat)\n")
	s.send(sb.String())
	sawErr := false
	var line string
	for {
		var err error
		line, err = s.readLine()
		if err != nil {
			s.Errors++
			s.Close()
			s.UnknownN++
			return Unknown, nil
		}
		if strings.HasPrefix(line, "(error") {
			sawErr = true
			s.Errors++
			fmt.Printf("SOLVER ERROR: %s\n", line)
			continue
		}
		if line == "sat" || line == "unsat" || line == "unknown" || line == "timeout" {
			break
		}
	}
	res := Unknown
	switch {
	case sawErr:
		s.UnknownN++
	case line == "sat":
		res = Sat
		s.SatN++
	case line == "unsat":
		res = Unsat
		s.UnsatN++
	default:
		s.UnknownN++
	}
	var model []uint64
	if res == Sat && len(vars) > 0 {
		model = make([]uint64, 0, len(vars))
		// ask in chunks
		for i := 0; i < len(vars); i += 200 {
			j := i + 200
			if j > len(vars) {
				j = len(vars)
			}
			var q strings.Builder
			q.WriteString("(get-value (")
			for _, v := range vars[i:j] {
				q.WriteString(v.smtName())
				q.WriteString(" ")
			}
			q.WriteString("))\n")
			s.send(q.String())
			txt, err := s.readSexp()
			if err != nil {
				s.Errors++
				s.Close()
				return Unknown, nil
			}
			model = parseModel(txt, vars[i:j], model)
		}
	}
	if s.proc != nil {
		s.send("(pop 1)\n")
	}
	return res, model
}

func (s *Solver) readLine() (string, error) {
	for {
		line, err := s.out.ReadString('\n')
		if err != nil {
			return "", err
		}
		line = strings.TrimSpace(line)
		if line == "" {
			continue
		}
		if s.Log != nil {
			fmt.Fprintf(s.Log, "; -> %s\n", line)
		}
		return line, nil
	}
}

// readSexp reads one balanced s-expression.
func (s *Solver) readSexp() (string, error) {
	var sb strings.Builder
	depth := 0
	started := false
	inBar := false
	for {
		c, err := s.out.ReadByte()
		if err != nil {
			return "", err
		}
		sb.WriteByte(c)
		if c == '|' {
			inBar = !inBar
		}
		if inBar {
			continue
		}
		if c == '(' {
			depth++
			started = true
		} else if c == ')' {
			depth--
			if started && depth == 0 {
				return sb.String(), nil
			}
		}
	}
}

// parseModel parses "((|name| #x..) (|n2| true) ...)".
func parseModel(txt string, vars []*Term, out []uint64) []uint64 {
	// tokenise
	toks := []string{}
	i := 0
	for i < len(txt) {
		c := txt[i]
		switch {
		case c == '(' || c == ')':
			toks = append(toks, string(c))
			i++
		case c == ' ' || c == '\n' || c == '\t' || c == '\r':
			i++
		case c == '|':
			j := strings.IndexByte(txt[i+1:], '|')
			toks = append(toks, txt[i+1:i+1+j])
			i += j + 2
		default:
			j := i
			for j < len(txt) && !strings.ContainsRune("() \n\t\r", rune(txt[j])) {
				j++
			}
			toks = append(toks, txt[i:j])
			i = j
		}
	}
	// expect ( ( name value ) ( name value ) ... ) where value may be a nested sexp
	p := 1
	vi := 0
	for p < len(toks) && toks[p] == "(" {
		// the echoed term: a token or a balanced sexp
		p++
		if toks[p] == "(" {
			d := 0
			for {
				if toks[p] == "(" {
					d++
				} else if toks[p] == ")" {
					d--
					if d == 0 {
						p++
						break
					}
				}
				p++
			}
		} else {
			p++
		}
		// value: a token or balanced sexp
		var valToks []string
		if toks[p] == "(" {
			d := 0
			for {
				valToks = append(valToks, toks[p])
				if toks[p] == "(" {
					d++
				} else if toks[p] == ")" {
					d--
					if d == 0 {
						p++
						break
					}
				}
				p++
			}
		} else {
			valToks = []string{toks[p]}
			p++
		}
		p++ // closing )
		if vi < len(vars) {
			out = append(out, parseValue(valToks, vars[vi]))
		}
		vi++
	}
	return out
}

func parseValue(toks []string, v *Term) uint64 {
	if len(toks) == 1 {
		t := toks[0]
		switch {
		case t == "true":
			return 1
		case t == "false":
			return 0
		case strings.HasPrefix(t, "#x"):
			u, _ := strconv.ParseUint(t[2:], 16, 64)
			return u
		case strings.HasPrefix(t, "#b"):
			u, _ := strconv.ParseUint(t[2:], 2, 64)
			return u
		}
		return 0
	}
	// (fp #b0 #b... #x...) or (_ bvN w) or (_ +zero 11 53) ...
	if toks[1] == "fp" && len(toks) >= 5 {
		sign := parseValue(toks[2:3], nil)
		exp := parseValue(toks[3:4], nil)
		man := parseValue(toks[4:5], nil)
		return sign<<63 | exp<<52 | man
	}
	if toks[1] == "_" && len(toks) >= 4 {
		if strings.HasPrefix(toks[2], "bv") {
			u, _ := strconv.ParseUint(toks[2][2:], 10, 64)
			return u
		}
		switch toks[2] {
		case "+zero":
			return 0
		case "-zero":
			return 1 << 63
		case "+oo":
			return 0x7ff0000000000000
		case "-oo":
			return 0xfff0000000000000
		case "NaN":
			return 0x7ff8000000000000
		}
	}
	return 0
}
