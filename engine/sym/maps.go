package sym

import (
	"go/types"

	"golang.org/x/tools/go/ssa"
)

func (it *Interp) mapJournal(m *MapObj) {
	if !it.journalOn {
		return
	}
	keys := append([]Value(nil), m.Keys...)
	vals := append([]Value(nil), m.Vals...)
	it.journal = append(it.journal, undo{fn: func() { m.Keys = keys; m.Vals = vals }})
}

// mapFind returns the index of the entry whose key equals k on this path (forking when
// equality is symbolic), or -1.
func (it *Interp) mapFind(m *MapObj, k Value) int {
	for i, ek := range m.Keys {
		c := it.valueEq(ek, k)
		if c.IsFalse() {
			continue
		}
		if c.IsTrue() || it.branch(c) {
			return i
		}
	}
	return -1
}

func (it *Interp) mapUpdate(m *MapV, k, v Value) {
	if m.M == nil {
		it.throw("assignment to entry in nil map")
	}
	i := it.mapFind(m.M, k)
	it.mapJournal(m.M)
	if i >= 0 {
		m.M.Vals = append([]Value(nil), m.M.Vals...)
		m.M.Vals[i] = v
		return
	}
	m.M.Keys = append(append([]Value(nil), m.M.Keys...), k)
	m.M.Vals = append(append([]Value(nil), m.M.Vals...), v)
}

func (it *Interp) mapDelete(m *MapV, k Value) {
	if m.M == nil {
		return
	}
	i := it.mapFind(m.M, k)
	if i < 0 {
		return
	}
	it.mapJournal(m.M)
	nk := append([]Value(nil), m.M.Keys[:i]...)
	nk = append(nk, m.M.Keys[i+1:]...)
	nv := append([]Value(nil), m.M.Vals[:i]...)
	nv = append(nv, m.M.Vals[i+1:]...)
	m.M.Keys, m.M.Vals = nk, nv
}

func (it *Interp) lookup(fr *frame, x *ssa.Lookup) {
	st := it.St
	base := it.get(fr, x.X)
	if s, ok := base.(*Str); ok {
		idx := it.idx64(fr, x.Index)
		it.boundsCheck(idx, s.Len, "index out of range")
		fr.regs[x] = it.loadCell(s.Obj, st.Add(s.Off, idx))
		return
	}
	m := base.(*MapV)
	k := it.get(fr, x.Index)
	vt := under(x.X.Type()).(*types.Map).Elem()
	var res Value = it.zero(vt)
	found := st.F
	if m.M != nil {
		// fork-free ite chain where possible
		for i := len(m.M.Keys) - 1; i >= 0; i-- {
			c := it.valueEq(m.M.Keys[i], k)
			if c.IsFalse() {
				continue
			}
			nv, ok := it.iteValue(c, m.M.Vals[i], res)
			if !ok {
				// fall back to forking
				j := it.mapFind(m.M, k)
				if j >= 0 {
					res, found = m.M.Vals[j], st.T
				} else {
					res, found = it.zero(vt), st.F
				}
				break
			}
			res = nv
			found = st.Or(c, found)
		}
	}
	if x.CommaOk {
		fr.regs[x] = Tuple{res, found}
	} else {
		fr.regs[x] = res
	}
}

func (it *Interp) rangeInit(fr *frame, x *ssa.Range) {
	v := it.get(fr, x.X)
	switch b := v.(type) {
	case *Str:
		fr.regs[x] = &RangeIter{S: b, I: 0}
	case *MapV:
		ri := &RangeIter{IsMap: true}
		if b.M != nil {
			keys := append([]Value(nil), b.M.Keys...)
			vals := append([]Value(nil), b.M.Vals...)
			n := len(keys)
			if it.MapOrderAll && n > 1 {
				// choose a permutation by successive nondeterministic picks
				pk := make([]Value, 0, n)
				pv := make([]Value, 0, n)
				for len(keys) > 0 {
					c := 0
					if len(keys) > 1 {
						c = it.choose(len(keys))
					}
					pk = append(pk, keys[c])
					pv = append(pv, vals[c])
					keys = append(keys[:c:c], keys[c+1:]...)
					vals = append(vals[:c:c], vals[c+1:]...)
				}
				keys, vals = pk, pv
			}
			ri.Keys, ri.Vals = keys, vals
		}
		fr.regs[x] = ri
	default:
		panic(pathEnd{"notenc", "range over " + describe(v)})
	}
}

func (it *Interp) rangeNext(fr *frame, x *ssa.Next) {
	st := it.St
	ri := it.get(fr, x.Iter).(*RangeIter)
	tup := x.Type().(*types.Tuple)
	if ri.IsMap {
		if ri.I >= len(ri.Keys) {
			fr.regs[x] = Tuple{st.F, it.zeroOrNil(tup.At(1).Type()), it.zeroOrNil(tup.At(2).Type())}
			return
		}
		fr.regs[x] = Tuple{st.T, ri.Keys[ri.I], ri.Vals[ri.I]}
		ri.I++
		return
	}
	// string
	s := ri.S
	pos := it.c64(int64(ri.I))
	more := st.Ult(pos, s.Len)
	if !it.branchOrConst(more) {
		fr.regs[x] = Tuple{st.F, it.c64(0), st.Const(32, 0)}
		return
	}
	v := it.viewStr(s)
	r, sz := it.decodeRune(v, ri.I, st.Sub(s.Len, pos))
	fr.regs[x] = Tuple{st.T, pos, r}
	ri.I += sz
}

func (it *Interp) zeroOrNil(t types.Type) Value {
	if b, ok := t.(*types.Basic); ok && b.Kind() == types.Invalid {
		return nil
	}
	return it.zero(t)
}
