package sym

import (
	"fmt"
	"os"
	"strings"

	"golang.org/x/tools/go/packages"
	"golang.org/x/tools/go/ssa"
	"golang.org/x/tools/go/ssa/ssautil"
)

type Loaded struct {
	Prog *ssa.Program
	Pkgs []*packages.Package
}

// Load type-checks /repo (with the overlay files and -tags verif) and builds SSA for
// everything including dependencies.
func Load(dir string, overlay map[string][]byte) (*Loaded, error) {
	cfg := &packages.Config{
		Mode:       packages.LoadAllSyntax,
		Dir:        dir,
		Overlay:    overlay,
		BuildFlags: []string{"-tags=verif"},
		Env:        append(os.Environ(), "GOFLAGS=-mod=mod", "GOPROXY=off", "GOSUMDB=off", "GOTOOLCHAIN=local"),
	}
	pkgs, err := packages.Load(cfg, "./...")
	if err != nil {
		return nil, err
	}
	var errs []string
	packages.Visit(pkgs, nil, func(p *packages.Package) {
		for _, e := range p.Errors {
			errs = append(errs, e.Error())
		}
	})
	if len(errs) > 0 {
		return nil, fmt.Errorf("load errors:\n%s", strings.Join(errs, "\n"))
	}
	prog, _ := ssautil.AllPackages(pkgs, ssa.InstantiateGenerics)
	prog.Build()
	return &Loaded{Prog: prog, Pkgs: pkgs}, nil
}

// FindFunc finds a package-level function by package path and name.
func (l *Loaded) FindFunc(pkgPath, name string) *ssa.Function {
	p := l.Prog.ImportedPackage(pkgPath)
	if p == nil {
		return nil
	}
	return p.Func(name)
}
