package sym

import (
	"fmt"
	"strconv"
)

func ndigits(v uint64) int {
	n := 1
	for v >= 10 {
		v /= 10
		n++
	}
	return n
}

// formatInt renders an integer as decimal text. A symbolic value is rendered through
// fresh digit variables d_i in [0,9] constrained by sum d_i*10^i == v, so that only
// multiplications by constants reach the solver.
func (it *Interp) formatInt(t *Term, signed bool, width int, zero bool) *Str {
	st := it.St
	if t.IsConst() {
		var s string
		if signed {
			s = strconv.FormatInt(t.Int(), 10)
		} else {
			s = strconv.FormatUint(t.Val, 10)
		}
		neg := false
		if len(s) > 0 && s[0] == '-' {
			neg = true
			s = s[1:]
		}
		for len(s)+btoi(neg) < width {
			if zero {
				s = "0" + s
			} else {
				s = " " + s
			}
		}
		if neg {
			s = "-" + s
		}
		return it.constStr(s)
	}
	if !zero && width > 0 {
		return it.opaqueStr("fmt-space-padded-int")
	}
	// a value that was parsed from a digit string by strconv.Atoi and is printed back with the
	// same zero-padded width: reuse the original digits (exact when no truncation happened)
	if zero && width > 0 && len(it.atoiMap) > 0 {
		if digs, ok := it.atoiMap[t]; ok && len(digs) == width {
			return it.newStr(digs)
		}
		base := t
		for base.Op == OZext || (base.Op == OExtract && base.B == 0) {
			base = base.Args[0]
		}
		if digs, ok := it.atoiMap[base]; ok && len(digs) == width && base.S.W >= t.S.W {
			lost := st.Ne(st.Zext(t, base.S.W), base)
			if _, bhi := st.rangeOf(base); t.S.W >= base.S.W || bhi <= mask(t.S.W) {
				lost = st.F
			}
			if !it.feasible(lost) {
				return it.newStr(digs)
			}
		}
	}
	v := t
	if v.S.W < 64 {
		if signed {
			v = st.Sext(v, 64)
		} else {
			v = st.Zext(v, 64)
		}
	}
	_, hi := st.rangeOf(v)
	if signed && hi >= 1<<63 {
		// may be negative: require non-negative on this path by forking
		if it.branch(st.Slt(v, it.c64(0))) {
			return it.opaqueStr("fmt-negative-int")
		}
		hi = 1<<63 - 1
	}
	K := ndigits(hi)
	if K > 19 {
		K = 20
	}
	ds := make([]*Term, K)
	sum := it.c64(0)
	p := uint64(1)
	cons := st.T
	for i := 0; i < K; i++ {
		d := st.Var(fmt.Sprintf("dig#%d_%d", t.ID, i), BV(8))
		ds[i] = d
		cons = st.And(cons, st.Ule(d, st.Const(8, 9)))
		sum = st.Add(sum, st.Mul(st.Zext(d, 64), st.Const(64, p)))
		p *= 10
	}
	if K == 20 {
		cons = st.And(cons, st.Ule(ds[19], st.Const(8, 1)))
		// no wrap-around: top digit 1 implies the rest <= 8446744073709551615
		cons = st.And(cons, st.Ule(st.Sub(sum, st.Mul(st.Zext(ds[19], 64), st.Const(64, 10000000000000000000))), st.Const(64, 9999999999999999999)))
	}
	cons = st.And(cons, st.Eq(sum, v))
	it.pushPC(cons)
	if it.digitSum == nil {
		it.digitSum = map[*Term]*Term{}
	}
	it.digitSum[sum] = v // a scanner that rebuilds this sum from the digits gets v back
	N := width
	if N < 1 {
		N = 1
	}
	ascii := func(d *Term) *Term { return st.Add(d, st.Const(8, '0')) }
	if K <= N {
		cells := make([]*Term, N)
		for j := 0; j < N; j++ {
			idx := N - 1 - j
			if idx < K {
				cells[j] = ascii(ds[idx])
			} else {
				cells[j] = st.Const(8, '0')
			}
		}
		return it.newStr(cells)
	}
	// symbolic length: L = max(N, significant digits)
	L := it.c64(int64(N))
	for i := N; i < K; i++ {
		nz := st.F
		for k := i; k < K; k++ {
			nz = st.Or(nz, st.Ne(ds[k], st.Const(8, 0)))
		}
		L = st.Ite(nz, it.c64(int64(i+1)), L)
	}
	cells := make([]*Term, K)
	for j := 0; j < K; j++ {
		// cell j = digit (L-1-j)
		var c *Term = st.Const(8, '0')
		for l := N; l <= K; l++ {
			idx := l - 1 - j
			if idx < 0 {
				continue
			}
			c = st.Ite(st.Eq(L, it.c64(int64(l))), ascii(ds[idx]), c)
		}
		cells[j] = c
	}
	s := it.newStr(cells)
	s.Len = L
	return s
}

func btoi(b bool) int {
	if b {
		return 1
	}
	return 0
}
