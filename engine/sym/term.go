// Package sym is a symbolic executor over go/ssa that emits SMT-LIB2.
package sym

import (
	"fmt"
	"math/bits"
	"strings"
)

// ---------------------------------------------------------------------------
// Terms: hash-consed DAG over Bool, BitVec(w<=64) and Float64.

type SortKind uint8

const (
	SBool SortKind = iota
	SBV
	SFP
)

type Sort struct {
	K SortKind
	W int // bit width for SBV
}

func (s Sort) String() string {
	switch s.K {
	case SBool:
		return "Bool"
	case SBV:
		return fmt.Sprintf("(_ BitVec %d)", s.W)
	default:
		return "(_ FloatingPoint 11 53)"
	}
}

var BoolSort = Sort{K: SBool}
var FPSort = Sort{K: SFP}

func BV(w int) Sort { return Sort{K: SBV, W: w} }

type Op uint8

const (
	OConst Op = iota
	OVar
	ONot
	OAnd
	OOr
	OIte
	OEq
	OAdd
	OSub
	OMul
	OUDiv
	OURem
	OSDiv
	OSRem
	OBAnd
	OBOr
	OBXor
	OBNot
	ONeg
	OShl
	OLShr
	OAShr
	OUlt
	OUle
	OSlt
	OSle
	OExtract // A=hi B=lo
	OZext    // A=extra bits
	OSext
	OConcat
	// floating point (float64 only)
	OFAdd
	OFSub
	OFMul
	OFDiv
	OFNeg
	OFLt
	OFLe
	OFEq
	OFCeil
	OFFloor
	OFTrunc
	OSToF    // signed bv -> fp (RNE)
	OUToF    // unsigned bv -> fp (RNE)
	OFToS    // fp -> signed bv (RTZ), A = width
	OFToU    // fp -> unsigned bv (RTZ), A = width
	OFOfBits // reinterpret bv64 as fp
	OFIsNaN
)

var opNames = map[Op]string{
	ONot: "not", OAnd: "and", OOr: "or", OIte: "ite", OEq: "=",
	OAdd: "bvadd", OSub: "bvsub", OMul: "bvmul", OUDiv: "bvudiv", OURem: "bvurem", OSDiv: "bvsdiv", OSRem: "bvsrem",
	OBAnd: "bvand", OBOr: "bvor", OBXor: "bvxor", OBNot: "bvnot", ONeg: "bvneg",
	OShl: "bvshl", OLShr: "bvlshr", OAShr: "bvashr",
	OUlt: "bvult", OUle: "bvule", OSlt: "bvslt", OSle: "bvsle", OConcat: "concat",
	OFAdd: "fp.add RNE", OFSub: "fp.sub RNE", OFMul: "fp.mul RNE", OFDiv: "fp.div RNE", OFNeg: "fp.neg",
	OFLt: "fp.lt", OFLe: "fp.leq", OFEq: "fp.eq", OFCeil: "fp.roundToIntegral RTP", OFFloor: "fp.roundToIntegral RTN",
	OFTrunc: "fp.roundToIntegral RTZ", OFIsNaN: "fp.isNaN",
}

type Term struct {
	ID   int
	Op   Op
	S    Sort
	Args []*Term
	Val  uint64 // constant value (bool: 0/1; bv: masked; fp: IEEE bits)
	Name string // variables
	A, B int    // extract hi/lo, extension amount, conversion width
	gen  int    // solver generation in which this term was defined
}

func (t *Term) IsConst() bool { return t.Op == OConst }
func (t *Term) IsTrue() bool  { return t.Op == OConst && t.S.K == SBool && t.Val == 1 }
func (t *Term) IsFalse() bool { return t.Op == OConst && t.S.K == SBool && t.Val == 0 }

// Int returns the constant as signed integer of its width.
func (t *Term) Int() int64 {
	if t.S.K != SBV {
		return int64(t.Val)
	}
	w := t.S.W
	if w >= 64 {
		return int64(t.Val)
	}
	if t.Val&(1<<(uint(w)-1)) != 0 {
		return int64(t.Val | ^uint64(0)<<uint(w))
	}
	return int64(t.Val)
}

func (t *Term) String() string {
	switch t.Op {
	case OConst:
		switch t.S.K {
		case SBool:
			if t.Val == 1 {
				return "true"
			}
			return "false"
		case SBV:
			return fmt.Sprintf("%d:bv%d", t.Val, t.S.W)
		default:
			return fmt.Sprintf("fp(%x)", t.Val)
		}
	case OVar:
		return t.Name
	}
	return fmt.Sprintf("t%d", t.ID)
}

// Store is a per-worker hash-consing table.
type Store struct {
	tab    map[string]*Term
	nextID int
	vars   map[string]*Term
	Vars   []*Term // in creation order
	T, F   *Term
	ranges map[int][2]uint64
}

func NewStore() *Store {
	s := &Store{tab: map[string]*Term{}, vars: map[string]*Term{}}
	s.T = s.mk(&Term{Op: OConst, S: BoolSort, Val: 1})
	s.F = s.mk(&Term{Op: OConst, S: BoolSort, Val: 0})
	return s
}

func (s *Store) NumTerms() int { return s.nextID }

func (s *Store) mk(t *Term) *Term {
	var sb strings.Builder
	fmt.Fprintf(&sb, "%d/%d/%d/%x/%s/%d/%d", t.Op, t.S.K, t.S.W, t.Val, t.Name, t.A, t.B)
	for _, a := range t.Args {
		fmt.Fprintf(&sb, ",%d", a.ID)
	}
	k := sb.String()
	if e, ok := s.tab[k]; ok {
		return e
	}
	t.ID = s.nextID
	s.nextID++
	s.tab[k] = t
	return t
}

func mask(w int) uint64 {
	if w >= 64 {
		return ^uint64(0)
	}
	return (uint64(1) << uint(w)) - 1
}

func (s *Store) Bool(b bool) *Term {
	if b {
		return s.T
	}
	return s.F
}

func (s *Store) Const(w int, v uint64) *Term {
	return s.mk(&Term{Op: OConst, S: BV(w), Val: v & mask(w)})
}

func (s *Store) ConstI(w int, v int64) *Term { return s.Const(w, uint64(v)) }

func (s *Store) FConst(bits uint64) *Term {
	return s.mk(&Term{Op: OConst, S: FPSort, Val: bits})
}

func (s *Store) Var(name string, so Sort) *Term {
	if v, ok := s.vars[name]; ok {
		if v.S != so {
			panic(fmt.Sprintf("variable %s redeclared with different sort %v vs %v", name, v.S, so))
		}
		return v
	}
	v := s.mk(&Term{Op: OVar, S: so, Name: name})
	s.vars[name] = v
	s.Vars = append(s.Vars, v)
	return v
}

func (s *Store) LookupVar(name string) *Term { return s.vars[name] }

// ---- boolean

func (s *Store) Not(a *Term) *Term {
	if a.IsConst() {
		return s.Bool(a.Val == 0)
	}
	if a.Op == ONot {
		return a.Args[0]
	}
	return s.mk(&Term{Op: ONot, S: BoolSort, Args: []*Term{a}})
}

func (s *Store) And(a, b *Term) *Term {
	if a.IsFalse() || b.IsFalse() {
		return s.F
	}
	if a.IsTrue() {
		return b
	}
	if b.IsTrue() {
		return a
	}
	if a == b {
		return a
	}
	if (a.Op == ONot && a.Args[0] == b) || (b.Op == ONot && b.Args[0] == a) {
		return s.F
	}
	if a.ID > b.ID {
		a, b = b, a
	}
	return s.mk(&Term{Op: OAnd, S: BoolSort, Args: []*Term{a, b}})
}

func (s *Store) Or(a, b *Term) *Term {
	if a.IsTrue() || b.IsTrue() {
		return s.T
	}
	if a.IsFalse() {
		return b
	}
	if b.IsFalse() {
		return a
	}
	if a == b {
		return a
	}
	if (a.Op == ONot && a.Args[0] == b) || (b.Op == ONot && b.Args[0] == a) {
		return s.T
	}
	if a.ID > b.ID {
		a, b = b, a
	}
	return s.mk(&Term{Op: OOr, S: BoolSort, Args: []*Term{a, b}})
}

func (s *Store) AndN(ts ...*Term) *Term {
	r := s.T
	for _, t := range ts {
		r = s.And(r, t)
	}
	return r
}

func (s *Store) OrN(ts ...*Term) *Term {
	r := s.F
	for _, t := range ts {
		r = s.Or(r, t)
	}
	return r
}

func (s *Store) Implies(a, b *Term) *Term { return s.Or(s.Not(a), b) }

func (s *Store) Ite(c, a, b *Term) *Term {
	if c.IsTrue() {
		return a
	}
	if c.IsFalse() {
		return b
	}
	if a == b {
		return a
	}
	if a.S != b.S {
		panic(fmt.Sprintf("ite sort mismatch %v %v", a.S, b.S))
	}
	if a.S.K == SBool {
		if a.IsTrue() && b.IsFalse() {
			return c
		}
		if a.IsFalse() && b.IsTrue() {
			return s.Not(c)
		}
		if a.IsTrue() {
			return s.Or(c, b)
		}
		if a.IsFalse() {
			return s.And(s.Not(c), b)
		}
		if b.IsTrue() {
			return s.Or(s.Not(c), a)
		}
		if b.IsFalse() {
			return s.And(c, a)
		}
	}
	if c.Op == ONot {
		return s.Ite(c.Args[0], b, a)
	}
	// ite(c, x, ite(c, y, z)) = ite(c, x, z)
	if b.Op == OIte && b.Args[0] == c {
		return s.Ite(c, a, b.Args[2])
	}
	if a.Op == OIte && a.Args[0] == c {
		return s.Ite(c, a.Args[1], b)
	}
	return s.mk(&Term{Op: OIte, S: a.S, Args: []*Term{c, a, b}})
}

func (s *Store) Eq(a, b *Term) *Term {
	if a == b {
		if a.S.K == SFP {
			// structural equality on FP terms: same term => equal bits (we use this for = not fp.eq)
			return s.T
		}
		return s.T
	}
	if a.S != b.S {
		panic(fmt.Sprintf("eq sort mismatch %v %v (%v, %v)", a.S, b.S, a, b))
	}
	if a.IsConst() && b.IsConst() {
		return s.Bool(a.Val == b.Val)
	}
	if a.S.K == SBool {
		if a.IsTrue() {
			return b
		}
		if b.IsTrue() {
			return a
		}
		if a.IsFalse() {
			return s.Not(b)
		}
		if b.IsFalse() {
			return s.Not(a)
		}
	}
	if a.IsConst() {
		a, b = b, a
	}
	// eq(ite(c, k1, k2), k) with constants
	if b.IsConst() && a.Op == OIte && a.Args[1].IsConst() && a.Args[2].IsConst() {
		return s.Ite(a.Args[0], s.Eq(a.Args[1], b), s.Eq(a.Args[2], b))
	}
	// eq(zext(x), const)
	if b.IsConst() && a.Op == OZext {
		x := a.Args[0]
		if b.Val > mask(x.S.W) {
			return s.F
		}
		return s.Eq(x, s.Const(x.S.W, b.Val))
	}
	// x + c1 == c2  -> x == c2-c1
	if b.IsConst() && a.Op == OAdd && a.Args[1].IsConst() {
		return s.Eq(a.Args[0], s.Const(a.S.W, b.Val-a.Args[1].Val))
	}
	if !a.IsConst() && !b.IsConst() && a.ID > b.ID {
		a, b = b, a
	}
	return s.mk(&Term{Op: OEq, S: BoolSort, Args: []*Term{a, b}})
}

func (s *Store) Ne(a, b *Term) *Term { return s.Not(s.Eq(a, b)) }

// ---- bit-vector arithmetic

func sx(v uint64, w int) int64 {
	if w >= 64 {
		return int64(v)
	}
	if v&(1<<(uint(w)-1)) != 0 {
		return int64(v | ^uint64(0)<<uint(w))
	}
	return int64(v)
}

func (s *Store) bin(op Op, a, b *Term) *Term {
	if a.S != b.S || a.S.K != SBV {
		panic(fmt.Sprintf("binop %v sort mismatch %v %v", opNames[op], a.S, b.S))
	}
	w := a.S.W
	if a.IsConst() && b.IsConst() {
		x, y := a.Val, b.Val
		var r uint64
		switch op {
		case OAdd:
			r = x + y
		case OSub:
			r = x - y
		case OMul:
			r = x * y
		case OUDiv:
			if y == 0 {
				r = mask(w)
			} else {
				r = x / y
			}
		case OURem:
			if y == 0 {
				r = x
			} else {
				r = x % y
			}
		case OSDiv:
			if y == 0 {
				if sx(x, w) < 0 {
					r = 1
				} else {
					r = mask(w)
				}
			} else if sx(y, w) == -1 {
				r = -x
			} else {
				r = uint64(sx(x, w) / sx(y, w))
			}
		case OSRem:
			if y == 0 {
				r = x
			} else if sx(y, w) == -1 {
				r = 0
			} else {
				r = uint64(sx(x, w) % sx(y, w))
			}
		case OBAnd:
			r = x & y
		case OBOr:
			r = x | y
		case OBXor:
			r = x ^ y
		case OShl:
			if y >= uint64(w) {
				r = 0
			} else {
				r = x << y
			}
		case OLShr:
			if y >= uint64(w) {
				r = 0
			} else {
				r = x >> y
			}
		case OAShr:
			if y >= uint64(w) {
				if sx(x, w) < 0 {
					r = mask(w)
				} else {
					r = 0
				}
			} else {
				r = uint64(sx(x, w) >> y)
			}
		}
		return s.Const(w, r)
	}
	zero := func(t *Term) bool { return t.IsConst() && t.Val == 0 }
	// division/remainder of a zero-extended value by a small positive constant: do it at the narrow width
	if (op == OUDiv || op == OSDiv || op == OURem || op == OSRem) && a.Op == OZext && b.IsConst() && b.Val > 0 {
		x := a.Args[0]
		if b.Val <= mask(x.S.W-1) {
			nop := op
			if op == OSDiv {
				nop = OUDiv
			} else if op == OSRem {
				nop = OURem
			}
			return s.Zext(s.bin(nop, x, s.Const(x.S.W, b.Val)), w)
		}
	}
	// (x*c + y) / C and % C with c | C, 0 <= y < c and no wrap-around: x / (C/c), (x % (C/c))*c + y
	if (op == OUDiv || op == OSDiv || op == OURem || op == OSRem) && b.IsConst() && sx(b.Val, w) > 0 && a.Op == OAdd && w == 64 {
		m, y := a.Args[0], a.Args[1]
		if m.Op != OMul {
			m, y = y, m
		}
		if m.Op == OMul && m.Args[1].IsConst() && sx(m.Args[1].Val, w) > 0 && b.Val%m.Args[1].Val == 0 {
			c := m.Args[1].Val
			_, yh := s.rangeOf(y)
			_, xh := s.rangeOf(m.Args[0])
			hi, lo := bits.Mul64(xh, c)
			if yh < c && hi == 0 && lo < (uint64(1)<<62) {
				k := s.Const(w, b.Val/c)
				if op == OUDiv || op == OSDiv {
					return s.bin(op, m.Args[0], k)
				}
				return s.bin(OAdd, s.bin(OMul, s.bin(op, m.Args[0], k), s.Const(w, c)), y)
			}
		}
	}
	switch op {
	case OAdd:
		if zero(a) {
			return b
		}
		if zero(b) {
			return a
		}
		if a.IsConst() {
			a, b = b, a
		}
		// (x + c1) + c2
		if b.IsConst() && a.Op == OAdd && a.Args[1].IsConst() {
			return s.bin(OAdd, a.Args[0], s.Const(w, a.Args[1].Val+b.Val))
		}
		// (x - y) + y = x
		if a.Op == OSub && a.Args[1] == b {
			return a.Args[0]
		}
		if b.Op == OSub && b.Args[1] == a {
			return b.Args[0]
		}
		if !b.IsConst() && a.ID > b.ID {
			a, b = b, a
		}
	case OSub:
		if zero(b) {
			return a
		}
		if a == b {
			return s.Const(w, 0)
		}
		if b.IsConst() {
			return s.bin(OAdd, a, s.Const(w, -b.Val))
		}
		// (x + y) - y = x ; (x + y) - x = y
		if a.Op == OAdd {
			if a.Args[1] == b {
				return a.Args[0]
			}
			if a.Args[0] == b {
				return a.Args[1]
			}
			// (x + c) - y where y = x + d  -> c - d
			if b.Op == OAdd && a.Args[0] == b.Args[0] && a.Args[1].IsConst() && b.Args[1].IsConst() {
				return s.Const(w, a.Args[1].Val-b.Args[1].Val)
			}
			if a.Args[1].IsConst() && a.Args[0] == b {
				return a.Args[1]
			}
		}
		if b.Op == OAdd && b.Args[0] == a && b.Args[1].IsConst() {
			return s.Const(w, -b.Args[1].Val)
		}
	case OMul:
		if zero(a) || zero(b) {
			return s.Const(w, 0)
		}
		if a.IsConst() && a.Val == 1 {
			return b
		}
		if b.IsConst() && b.Val == 1 {
			return a
		}
		if a.IsConst() {
			a, b = b, a
		}
	case OBAnd:
		if zero(a) || zero(b) {
			return s.Const(w, 0)
		}
		if a == b {
			return a
		}
		if a.IsConst() && a.Val == mask(w) {
			return b
		}
		if b.IsConst() && b.Val == mask(w) {
			return a
		}
		if a.IsConst() {
			a, b = b, a
		}
		// zext(x) & c where c covers all of x's bits
		if b.IsConst() && a.Op == OZext && b.Val&mask(a.Args[0].S.W) == mask(a.Args[0].S.W) {
			return a
		}
	case OBOr:
		if zero(a) {
			return b
		}
		if zero(b) {
			return a
		}
		if a == b {
			return a
		}
		if a.IsConst() {
			a, b = b, a
		}
	case OBXor:
		if zero(a) {
			return b
		}
		if zero(b) {
			return a
		}
		if a == b {
			return s.Const(w, 0)
		}
		if a.IsConst() {
			a, b = b, a
		}
	case OShl, OLShr, OAShr:
		if zero(b) {
			return a
		}
		if zero(a) {
			return a
		}
		if b.IsConst() && b.Val >= uint64(w) && op != OAShr {
			return s.Const(w, 0)
		}
	case OUDiv, OSDiv:
		if b.IsConst() && b.Val == 1 {
			return a
		}
		// (x * c1) / c2 with c1 | c2 and no wrap-around: x / (c2/c1)
		if b.IsConst() && a.Op == OMul && a.Args[1].IsConst() && a.Args[1].Val != 0 && b.Val%a.Args[1].Val == 0 && sx(b.Val, w) > 0 && sx(a.Args[1].Val, w) > 0 {
			_, xh := s.rangeOf(a.Args[0])
			hi, lo := bits.Mul64(xh, a.Args[1].Val)
			if hi == 0 && lo < (uint64(1)<<uint(w-1)) {
				return s.bin(op, a.Args[0], s.Const(w, b.Val/a.Args[1].Val))
			}
		}
	case OURem:
		if b.IsConst() && b.Val == 1 {
			return s.Const(w, 0)
		}
		if b.IsConst() && bits.OnesCount64(b.Val) == 1 {
			return s.bin(OBAnd, a, s.Const(w, b.Val-1))
		}
	}
	return s.mk(&Term{Op: op, S: a.S, Args: []*Term{a, b}})
}

func (s *Store) Add(a, b *Term) *Term  { return s.bin(OAdd, a, b) }
func (s *Store) Sub(a, b *Term) *Term  { return s.bin(OSub, a, b) }
func (s *Store) Mul(a, b *Term) *Term  { return s.bin(OMul, a, b) }
func (s *Store) UDiv(a, b *Term) *Term { return s.bin(OUDiv, a, b) }
func (s *Store) URem(a, b *Term) *Term { return s.bin(OURem, a, b) }
func (s *Store) SDiv(a, b *Term) *Term { return s.bin(OSDiv, a, b) }
func (s *Store) SRem(a, b *Term) *Term { return s.bin(OSRem, a, b) }
func (s *Store) BAnd(a, b *Term) *Term { return s.bin(OBAnd, a, b) }
func (s *Store) BOr(a, b *Term) *Term  { return s.bin(OBOr, a, b) }
func (s *Store) BXor(a, b *Term) *Term { return s.bin(OBXor, a, b) }
func (s *Store) Shl(a, b *Term) *Term  { return s.bin(OShl, a, b) }
func (s *Store) LShr(a, b *Term) *Term { return s.bin(OLShr, a, b) }
func (s *Store) AShr(a, b *Term) *Term { return s.bin(OAShr, a, b) }

func (s *Store) BNot(a *Term) *Term {
	if a.IsConst() {
		return s.Const(a.S.W, ^a.Val)
	}
	if a.Op == OBNot {
		return a.Args[0]
	}
	return s.mk(&Term{Op: OBNot, S: a.S, Args: []*Term{a}})
}

func (s *Store) Neg(a *Term) *Term {
	if a.IsConst() {
		return s.Const(a.S.W, -a.Val)
	}
	return s.mk(&Term{Op: ONeg, S: a.S, Args: []*Term{a}})
}

func (s *Store) cmp(op Op, a, b *Term) *Term {
	if a.S != b.S || a.S.K != SBV {
		panic(fmt.Sprintf("cmp %v sort mismatch %v %v", opNames[op], a.S, b.S))
	}
	w := a.S.W
	if a.IsConst() && b.IsConst() {
		switch op {
		case OUlt:
			return s.Bool(a.Val < b.Val)
		case OUle:
			return s.Bool(a.Val <= b.Val)
		case OSlt:
			return s.Bool(sx(a.Val, w) < sx(b.Val, w))
		case OSle:
			return s.Bool(sx(a.Val, w) <= sx(b.Val, w))
		}
	}
	if a == b {
		return s.Bool(op == OUle || op == OSle)
	}
	switch op {
	case OUlt:
		if b.IsConst() && b.Val == 0 {
			return s.F
		}
		if a.IsConst() && a.Val == mask(w) {
			return s.F
		}
	case OUle:
		if a.IsConst() && a.Val == 0 {
			return s.T
		}
		if b.IsConst() && b.Val == mask(w) {
			return s.T
		}
	}
	// comparisons of zero-extended values against constants / each other
	if a.Op == OZext && b.IsConst() {
		x := a.Args[0]
		xw := x.S.W
		neg := sx(b.Val, w) < 0
		switch op {
		case OUlt, OUle:
			if b.Val > mask(xw) {
				return s.T
			}
			return s.cmp(op, x, s.Const(xw, b.Val))
		case OSlt, OSle:
			if neg {
				return s.F
			}
			if b.Val > mask(xw) {
				return s.T
			}
			if op == OSlt {
				return s.cmp(OUlt, x, s.Const(xw, b.Val))
			}
			return s.cmp(OUle, x, s.Const(xw, b.Val))
		}
	}
	if b.Op == OZext && a.IsConst() {
		x := b.Args[0]
		xw := x.S.W
		neg := sx(a.Val, w) < 0
		switch op {
		case OUlt, OUle:
			if a.Val > mask(xw) {
				return s.F
			}
			return s.cmp(op, s.Const(xw, a.Val), x)
		case OSlt, OSle:
			if neg {
				return s.T
			}
			if a.Val > mask(xw) {
				return s.F
			}
			if op == OSlt {
				return s.cmp(OUlt, s.Const(xw, a.Val), x)
			}
			return s.cmp(OUle, s.Const(xw, a.Val), x)
		}
	}
	// ite with constant arms against constant
	if a.Op == OIte && b.IsConst() && a.Args[1].IsConst() && a.Args[2].IsConst() {
		return s.Ite(a.Args[0], s.cmp(op, a.Args[1], b), s.cmp(op, a.Args[2], b))
	}
	if b.Op == OIte && a.IsConst() && b.Args[1].IsConst() && b.Args[2].IsConst() {
		return s.Ite(b.Args[0], s.cmp(op, a, b.Args[1]), s.cmp(op, a, b.Args[2]))
	}
	return s.mk(&Term{Op: op, S: BoolSort, Args: []*Term{a, b}})
}

func (s *Store) Ult(a, b *Term) *Term { return s.cmp(OUlt, a, b) }
func (s *Store) Ule(a, b *Term) *Term { return s.cmp(OUle, a, b) }
func (s *Store) Slt(a, b *Term) *Term { return s.cmp(OSlt, a, b) }
func (s *Store) Sle(a, b *Term) *Term { return s.cmp(OSle, a, b) }

func (s *Store) Extract(a *Term, hi, lo int) *Term {
	w := hi - lo + 1
	if lo == 0 && w == a.S.W {
		return a
	}
	if a.IsConst() {
		return s.Const(w, a.Val>>uint(lo))
	}
	if a.Op == OZext {
		x := a.Args[0]
		if hi < x.S.W {
			return s.Extract(x, hi, lo)
		}
		if lo >= x.S.W {
			return s.Const(w, 0)
		}
		if lo == 0 {
			return s.Zext(x, w)
		}
	}
	if a.Op == OSext && hi < a.Args[0].S.W {
		return s.Extract(a.Args[0], hi, lo)
	}
	if a.Op == OConcat {
		lw := a.Args[1].S.W
		if hi < lw {
			return s.Extract(a.Args[1], hi, lo)
		}
		if lo >= lw {
			return s.Extract(a.Args[0], hi-lw, lo-lw)
		}
	}
	if a.Op == OExtract {
		return s.Extract(a.Args[0], hi+a.B, lo+a.B)
	}
	if a.Op == OIte && a.Args[1].IsConst() && a.Args[2].IsConst() {
		return s.Ite(a.Args[0], s.Extract(a.Args[1], hi, lo), s.Extract(a.Args[2], hi, lo))
	}
	// low bits of and/or/xor/add distribute
	if lo == 0 && (a.Op == OBAnd || a.Op == OBOr || a.Op == OBXor || a.Op == OAdd || a.Op == OSub || a.Op == OMul) {
		x, y := s.Extract(a.Args[0], hi, 0), s.Extract(a.Args[1], hi, 0)
		return s.bin(a.Op, x, y)
	}
	return s.mk(&Term{Op: OExtract, S: BV(w), Args: []*Term{a}, A: hi, B: lo})
}

// Zext extends a to width w (w >= a.W).
func (s *Store) Zext(a *Term, w int) *Term {
	if w == a.S.W {
		return a
	}
	if w < a.S.W {
		return s.Extract(a, w-1, 0)
	}
	if a.IsConst() {
		return s.Const(w, a.Val)
	}
	if a.Op == OZext {
		return s.Zext(a.Args[0], w)
	}
	if a.Op == OIte && a.Args[1].IsConst() && a.Args[2].IsConst() {
		return s.Ite(a.Args[0], s.Zext(a.Args[1], w), s.Zext(a.Args[2], w))
	}
	return s.mk(&Term{Op: OZext, S: BV(w), Args: []*Term{a}, A: w - a.S.W})
}

func (s *Store) Sext(a *Term, w int) *Term {
	if w == a.S.W {
		return a
	}
	if w < a.S.W {
		return s.Extract(a, w-1, 0)
	}
	if a.IsConst() {
		return s.Const(w, uint64(sx(a.Val, a.S.W)))
	}
	if a.Op == OZext {
		// zero-extended value has a clear sign bit
		return s.Zext(a.Args[0], w)
	}
	if a.Op == OIte && a.Args[1].IsConst() && a.Args[2].IsConst() {
		return s.Ite(a.Args[0], s.Sext(a.Args[1], w), s.Sext(a.Args[2], w))
	}
	return s.mk(&Term{Op: OSext, S: BV(w), Args: []*Term{a}, A: w - a.S.W})
}

func (s *Store) Concat(hi, lo *Term) *Term {
	w := hi.S.W + lo.S.W
	if w > 64 {
		panic("concat wider than 64 bits")
	}
	if hi.IsConst() && lo.IsConst() {
		return s.Const(w, hi.Val<<uint(lo.S.W)|lo.Val)
	}
	if hi.IsConst() && hi.Val == 0 {
		return s.Zext(lo, w)
	}
	// concat(x[a:m+1], x[m:b]) = x[a:b]
	if hi.Op == OExtract && lo.Op == OExtract && hi.Args[0] == lo.Args[0] && hi.B == lo.A+1 {
		return s.Extract(hi.Args[0], hi.A, lo.B)
	}
	// concat(x[a:m+1], x[m:0]) where the low part is the whole of a narrower x handled above; also
	// concat(hi, zext?) not simplified
	return s.mk(&Term{Op: OConcat, S: BV(w), Args: []*Term{hi, lo}})
}

// ---- floating point (float64)

func (s *Store) fbin(op Op, a, b *Term) *Term {
	if a.IsConst() && b.IsConst() {
		x, y := f64(a.Val), f64(b.Val)
		switch op {
		case OFAdd:
			return s.FConst(fbits(x + y))
		case OFSub:
			return s.FConst(fbits(x - y))
		case OFMul:
			return s.FConst(fbits(x * y))
		case OFDiv:
			return s.FConst(fbits(x / y))
		}
	}
	return s.mk(&Term{Op: op, S: FPSort, Args: []*Term{a, b}})
}

func (s *Store) fcmp(op Op, a, b *Term) *Term {
	if a.IsConst() && b.IsConst() {
		x, y := f64(a.Val), f64(b.Val)
		switch op {
		case OFLt:
			return s.Bool(x < y)
		case OFLe:
			return s.Bool(x <= y)
		case OFEq:
			return s.Bool(x == y)
		}
	}
	return s.mk(&Term{Op: op, S: BoolSort, Args: []*Term{a, b}})
}

func (s *Store) FUn(op Op, a *Term) *Term {
	if a.IsConst() {
		x := f64(a.Val)
		switch op {
		case OFNeg:
			return s.FConst(fbits(-x))
		case OFCeil:
			return s.FConst(fbits(fceil(x)))
		case OFFloor:
			return s.FConst(fbits(ffloor(x)))
		case OFTrunc:
			return s.FConst(fbits(ftrunc(x)))
		case OFIsNaN:
			return s.Bool(x != x)
		}
	}
	so := FPSort
	if op == OFIsNaN {
		so = BoolSort
	}
	return s.mk(&Term{Op: op, S: so, Args: []*Term{a}})
}

// FOfBits reinterprets a 64-bit pattern as float64.
func (s *Store) FOfBits(a *Term) *Term {
	if a.IsConst() {
		return s.FConst(a.Val)
	}
	return s.mk(&Term{Op: OFOfBits, S: FPSort, Args: []*Term{a}})
}

func (s *Store) IntToF(a *Term, signed bool) *Term {
	if a.IsConst() {
		if signed {
			return s.FConst(fbits(float64(sx(a.Val, a.S.W))))
		}
		return s.FConst(fbits(float64(a.Val)))
	}
	op := OUToF
	if signed {
		op = OSToF
	}
	return s.mk(&Term{Op: op, S: FPSort, Args: []*Term{a}})
}

func (s *Store) FToInt(a *Term, w int, signed bool) *Term {
	if a.IsConst() {
		x := f64(a.Val)
		if signed {
			return s.Const(w, uint64(int64(x)))
		}
		return s.Const(w, uint64(x))
	}
	op := OFToU
	if signed {
		op = OFToS
	}
	return s.mk(&Term{Op: op, S: BV(w), Args: []*Term{a}, A: w})
}

// ---------------------------------------------------------------------------
// SMT-LIB2 printing

func (t *Term) smtName() string {
	switch t.Op {
	case OConst:
		switch t.S.K {
		case SBool:
			if t.Val == 1 {
				return "true"
			}
			return "false"
		case SBV:
			if t.S.W%4 == 0 {
				return fmt.Sprintf("#x%0*x", t.S.W/4, t.Val)
			}
			return fmt.Sprintf("#b%0*b", t.S.W, t.Val)
		default:
			return fmt.Sprintf("((_ to_fp 11 53) #x%016x)", t.Val)
		}
	case OVar:
		return "|" + t.Name + "|"
	}
	return fmt.Sprintf("t%d", t.ID)
}

func (t *Term) smtBody() string {
	var sb strings.Builder
	switch t.Op {
	case OExtract:
		fmt.Fprintf(&sb, "((_ extract %d %d) %s)", t.A, t.B, t.Args[0].smtName())
	case OZext:
		fmt.Fprintf(&sb, "((_ zero_extend %d) %s)", t.A, t.Args[0].smtName())
	case OSext:
		fmt.Fprintf(&sb, "((_ sign_extend %d) %s)", t.A, t.Args[0].smtName())
	case OSToF:
		fmt.Fprintf(&sb, "((_ to_fp 11 53) RNE %s)", t.Args[0].smtName())
	case OUToF:
		fmt.Fprintf(&sb, "((_ to_fp_unsigned 11 53) RNE %s)", t.Args[0].smtName())
	case OFToS:
		fmt.Fprintf(&sb, "((_ fp.to_sbv %d) RTZ %s)", t.A, t.Args[0].smtName())
	case OFToU:
		fmt.Fprintf(&sb, "((_ fp.to_ubv %d) RTZ %s)", t.A, t.Args[0].smtName())
	case OFOfBits:
		fmt.Fprintf(&sb, "((_ to_fp 11 53) %s)", t.Args[0].smtName())
	default:
		sb.WriteString("(")
		sb.WriteString(opNames[t.Op])
		for _, a := range t.Args {
			sb.WriteString(" ")
			sb.WriteString(a.smtName())
		}
		sb.WriteString(")")
	}
	return sb.String()
}
