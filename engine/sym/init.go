package sym

import (
	"strings"

	"golang.org/x/tools/go/ssa"
)

// InitPackages runs the package initialisers of the repository's packages and of the
// listed dependency packages in the interpreter (concrete mode, journal off), which
// materialises their tables and error values as heap objects.
func (it *Interp) InitPackages(extra []string) error {
	it.journalOn = false
	it.path = &PathResult{}
	it.job = &JobState{KFHits: map[string]*KFHit{}, violatedLabel: map[string]bool{}}
	it.freshN = map[string]int{}
	it.egQueue = map[*Object][]*Func{}
	allowed := func(p *ssa.Package) bool {
		path := p.Pkg.Path()
		if strings.HasPrefix(path, repoModule) {
			return true
		}
		for _, e := range extra {
			if path == e {
				return true
			}
		}
		return false
	}
	// intercept init of non-allowed packages
	var err error
	for _, p := range it.Prog.AllPackages() {
		if !allowed(p) {
			if f := p.Func("init"); f != nil {
				it.stubs[f.String()] = func(it *Interp, fr *frame, cc *ssa.CallCommon, a []Value) Value { return nil }
			}
		}
	}
	for _, p := range it.Prog.AllPackages() {
		if !allowed(p) {
			continue
		}
		f := p.Func("init")
		if f == nil {
			continue
		}
		func() {
			defer func() {
				if r := recover(); r != nil {
					switch e := r.(type) {
					case pathEnd:
						err = &initError{p.Pkg.Path() + ": " + e.Kind + ": " + e.Msg}
					case *GoPanic:
						err = &initError{p.Pkg.Path() + ": panic: " + e.Msg}
					default:
						println("INTERNAL PANIC during init; interpreted stack:")
						println(it.StackString())
						panic(r)
					}
				}
			}()
			it.steps = 0
			it.Call(f, nil, nil)
		}()
		if err != nil {
			return err
		}
	}
	it.job = nil
	return nil
}

type initError struct{ s string }

func (e *initError) Error() string { return e.s }
