package sym

import (
	"crypto/md5"
	"fmt"
	"go/types"
	"strings"

	"golang.org/x/tools/go/ssa"
)

func (it *Interp) namedType(pkg, name string) types.Type {
	p := it.Prog.ImportedPackage(pkg)
	if p == nil {
		panic(pathEnd{"notenc", "package not loaded: " + pkg})
	}
	m := p.Members[name]
	if m == nil {
		panic(pathEnd{"notenc", "no member " + pkg + "." + name})
	}
	return m.Type()
}

func (it *Interp) pkgFunc(pkg, name string) *ssa.Function {
	p := it.Prog.ImportedPackage(pkg)
	if p == nil {
		panic(pathEnd{"notenc", "package not loaded: " + pkg})
	}
	f := p.Func(name)
	if f == nil {
		panic(pathEnd{"notenc", "no function " + pkg + "." + name})
	}
	return f
}

func (it *Interp) pkgVar(pkg, name string) *ssa.Global {
	p := it.Prog.ImportedPackage(pkg)
	if p == nil {
		panic(pathEnd{"notenc", "package not loaded: " + pkg})
	}
	return p.Var(name)
}

// newError builds an *errors.errorString value.
func (it *Interp) newError(msg string) *Iface {
	t := it.namedType("errors", "errorString")
	o := it.newObject(1, "")
	o.Cells[0] = it.constStr(msg)
	return &Iface{T: types.NewPointer(t), V: &Ptr{Obj: o, Off: it.c64(0)}}
}

func (it *Interp) nilError() *Iface { return &Iface{} }

// methodOf finds a method by name on a dynamic type.
func (it *Interp) methodOf(t types.Type, name string) *ssa.Function {
	ms := it.Prog.MethodSets.MethodSet(t)
	for i := 0; i < ms.Len(); i++ {
		if ms.At(i).Obj().Name() == name {
			return it.Prog.MethodValue(ms.At(i))
		}
	}
	return nil
}

func (it *Interp) invokeByName(fr *frame, recv *Iface, name string, args ...Value) Value {
	if recv.T == nil {
		it.throw("invalid memory address or nil pointer dereference (nil interface)")
	}
	fn := it.methodOf(recv.T, name)
	if fn == nil {
		panic(pathEnd{"notenc", fmt.Sprintf("method %s on %v", name, recv.T)})
	}
	return it.callFunction(fr, fn, append([]Value{recv.V}, args...), nil, nil)
}

func isNilIface(v Value) bool {
	i, ok := v.(*Iface)
	return ok && i.T == nil
}

func registerStubs(it *Interp) {
	s := it.stubs
	s["bytes.IndexByte"] = stubIndexByte
	s["strings.IndexByte"] = stubIndexByte
	s["internal/bytealg.IndexByte"] = stubIndexByte
	s["internal/bytealg.IndexByteString"] = stubIndexByte
	s["bytes.Equal"] = func(it *Interp, fr *frame, cc *ssa.CallCommon, a []Value) Value {
		return it.viewEq(it.viewOf(a[0]), it.viewOf(a[1]))
	}
	s["bytes.Join"] = stubJoin
	s["strings.Join"] = stubJoin
	s["strings.Index"] = stubStringsIndex
	s["bytes.Index"] = stubStringsIndex
	s["strings.Contains"] = func(it *Interp, fr *frame, cc *ssa.CallCommon, a []Value) Value {
		i := stubStringsIndex(it, fr, cc, a).(*Term)
		return it.St.Sle(it.c64(0), i)
	}
	s["strings.HasPrefix"] = func(it *Interp, fr *frame, cc *ssa.CallCommon, a []Value) Value {
		x, p := it.viewOf(a[0]), it.viewOf(a[1])
		return it.matchAt(x, p, 0)
	}
	s["encoding/binary.Read"] = stubBinaryRead
	s["encoding/binary.Write"] = stubBinaryWrite
	s["errors.Is"] = stubErrorsIs
	s["fmt.Errorf"] = stubErrorf
	s["fmt.Sprintf"] = stubSprintf
	s["fmt.Sprint"] = func(it *Interp, fr *frame, cc *ssa.CallCommon, a []Value) Value { return it.opaqueStr("Sprint") }
	s["fmt.Println"] = stubNoop2
	s["fmt.Printf"] = stubNoop2
	s["fmt.Print"] = stubNoop2
	s["crypto/md5.Sum"] = stubMD5Sum
	s["crypto/md5.New"] = stubMD5New
	s["(*crypto/md5.digest).Write"] = stubMD5Write
	s["(*crypto/md5.digest).Sum"] = stubMD5SumMethod
	s["github.com/valyala/bytebufferpool.Get"] = stubBBPGet
	s["github.com/valyala/bytebufferpool.Put"] = stubBBPPut
	s["(*github.com/valyala/bytebufferpool.Pool).Get"] = func(it *Interp, fr *frame, cc *ssa.CallCommon, a []Value) Value {
		return stubBBPGet(it, fr, cc, nil)
	}
	s["(*github.com/valyala/bytebufferpool.Pool).Put"] = func(it *Interp, fr *frame, cc *ssa.CallCommon, a []Value) Value {
		return stubBBPPut(it, fr, cc, a[1:])
	}
	s["(*sync.Pool).Get"] = stubSyncPoolGet
	s["(*sync.Pool).Put"] = func(it *Interp, fr *frame, cc *ssa.CallCommon, a []Value) Value { return nil }
	s[repoModule+"/logger.*"] = stubZeroResults
	s["(*golang.org/x/sync/errgroup.Group).Go"] = stubErrgroupGo
	s["(*golang.org/x/sync/errgroup.Group).Wait"] = stubErrgroupWait
	s["(*strings.Builder).WriteString"] = func(it *Interp, fr *frame, cc *ssa.CallCommon, a []Value) Value {
		n := it.builderAppend(a[0].(*Ptr), a[1])
		return Tuple{n, it.nilError()}
	}
	s["(*strings.Builder).Write"] = s["(*strings.Builder).WriteString"]
	s["(*strings.Builder).WriteByte"] = func(it *Interp, fr *frame, cc *ssa.CallCommon, a []Value) Value {
		it.builderAppend(a[0].(*Ptr), it.newByteSlice([]*Term{a[1].(*Term)}))
		return it.nilError()
	}
	s["(*strings.Builder).WriteRune"] = func(it *Interp, fr *frame, cc *ssa.CallCommon, a []Value) Value {
		n := it.builderAppend(a[0].(*Ptr), it.runeToStr(a[1].(*Term)))
		return Tuple{n, it.nilError()}
	}
	s["(*strings.Builder).String"] = func(it *Interp, fr *frame, cc *ssa.CallCommon, a []Value) Value {
		b := it.builderBuf(a[0].(*Ptr))
		return it.bytesToStr(b)
	}
	s["(*strings.Builder).Len"] = func(it *Interp, fr *frame, cc *ssa.CallCommon, a []Value) Value {
		return it.builderBuf(a[0].(*Ptr)).Len
	}
	s["(*strings.Builder).Reset"] = func(it *Interp, fr *frame, cc *ssa.CallCommon, a []Value) Value {
		p := a[0].(*Ptr)
		z := it.c64(0)
		it.storeCell(p.Obj, it.St.Add(p.Off, it.c64(1)), &Slice{Off: z, Len: z, Cap: z, ECells: 1}, nil)
		return nil
	}
	s["(*strings.Builder).Grow"] = func(it *Interp, fr *frame, cc *ssa.CallCommon, a []Value) Value { return nil }
	s["math.Ceil"] = func(it *Interp, fr *frame, cc *ssa.CallCommon, a []Value) Value {
		it.fpForce(a[0].(*Term))
		return it.St.FUn(OFCeil, a[0].(*Term))
	}
	s["math.Floor"] = func(it *Interp, fr *frame, cc *ssa.CallCommon, a []Value) Value {
		it.fpForce(a[0].(*Term))
		return it.St.FUn(OFFloor, a[0].(*Term))
	}
	s["math.Trunc"] = func(it *Interp, fr *frame, cc *ssa.CallCommon, a []Value) Value {
		it.fpForce(a[0].(*Term))
		return it.St.FUn(OFTrunc, a[0].(*Term))
	}
	s["internal/race.Enabled"] = stubZeroResults
	s["runtime.KeepAlive"] = stubNoop2
	registerMoreStubs(it)
}

func stubNoop2(it *Interp, fr *frame, cc *ssa.CallCommon, a []Value) Value {
	if cc != nil {
		return it.zeroResults(cc.Signature())
	}
	return nil
}

func stubZeroResults(it *Interp, fr *frame, cc *ssa.CallCommon, a []Value) Value {
	if cc != nil {
		return it.zeroResults(cc.Signature())
	}
	return nil
}

func (it *Interp) opaqueStr(what string) *Str {
	if it.job != nil {
		it.job.note("opaque-format:" + what)
	}
	return it.constStr("<" + what + ">")
}

// first index of byte c in view, or -1
func stubIndexByte(it *Interp, fr *frame, cc *ssa.CallCommon, a []Value) Value {
	st := it.St
	v := it.viewOf(a[0])
	c := a[1].(*Term)
	res := st.ConstI(64, -1)
	for k := v.max - 1; k >= 0; k-- {
		hit := st.Eq(it.cellAtI(v, k), c)
		if !v.ln.IsConst() {
			hit = st.And(hit, st.Ult(it.c64(int64(k)), v.ln))
		}
		res = st.Ite(hit, it.c64(int64(k)), res)
	}
	if fr != nil && fr.fn != nil && fr.fn.String() == "(*bytes.Buffer).readSlice" && !res.IsConst() {
		// delimiter search that moves a read cursor: fork on the position (keeps later
		// offsets concrete; chains of symbolic cursors do not scale)
		return it.c64(int64(it.concretize(res)))
	}
	return it.tryConst(res)
}

func stubJoin(it *Interp, fr *frame, cc *ssa.CallCommon, a []Value) Value {
	elems := a[0].(*Slice)
	sep := it.viewOf(a[1])
	n := int(it.concretize(elems.Len))
	var parts []view
	for i := 0; i < n; i++ {
		e := it.loadCell(elems.Obj, it.St.Add(elems.Off, it.c64(int64(i))))
		if i > 0 && sep.max > 0 {
			parts = append(parts, sep)
		}
		parts = append(parts, it.viewOf(e))
	}
	_, isStr := a[1].(*Str)
	if n == 0 {
		if isStr {
			return it.constStr("")
		}
		z := it.c64(0)
		return &Slice{Off: z, Len: z, Cap: z, ECells: 1}
	}
	o, ln := it.concatViews(parts)
	if isStr {
		return &Str{Obj: o, Off: it.c64(0), Len: ln}
	}
	return &Slice{Obj: o, Off: it.c64(0), Len: ln, Cap: ln, ECells: 1}
}

// matchAt: does pattern p occur in x at position i (concrete)?
func (it *Interp) matchAt(x, p view, i int) *Term {
	st := it.St
	if !p.ln.IsConst() {
		panic(pathEnd{"notenc", "substring search with symbolic-length pattern"})
	}
	m := int(p.ln.Val)
	if i+m > x.max {
		return st.F
	}
	r := st.Ule(it.c64(int64(i+m)), x.ln)
	for k := 0; k < m; k++ {
		r = st.And(r, st.Eq(it.cellAtI(x, i+k), it.cellAtI(p, k)))
		if r.IsFalse() {
			break
		}
	}
	return r
}

func stubStringsIndex(it *Interp, fr *frame, cc *ssa.CallCommon, a []Value) Value {
	st := it.St
	x, p := it.viewOf(a[0]), it.viewOf(a[1])
	res := st.ConstI(64, -1)
	for i := x.max; i >= 0; i-- {
		res = st.Ite(it.matchAt(x, p, i), it.c64(int64(i)), res)
	}
	return it.tryConst(res)
}

// ---------------------------------------------------------------------------
// encoding/binary

func (it *Interp) orderIsBig(order Value) bool {
	o := order.(*Iface)
	if o.T == nil {
		it.throw("nil ByteOrder")
	}
	return strings.Contains(o.T.String(), "bigEndian")
}

func intWidth(t types.Type) (int, bool) {
	b, ok := under(t).(*types.Basic)
	if !ok {
		return 0, false
	}
	switch b.Kind() {
	case types.Int8, types.Uint8, types.Bool:
		return 8, true
	case types.Int16, types.Uint16:
		return 16, true
	case types.Int32, types.Uint32:
		return 32, true
	case types.Int64, types.Uint64:
		return 64, true
	}
	return 0, false
}

func stubBinaryRead(it *Interp, fr *frame, cc *ssa.CallCommon, a []Value) Value {
	st := it.St
	r := a[0].(*Iface)
	big := it.orderIsBig(a[1])
	data := a[2].(*Iface)
	pt, ok := data.T.(*types.Pointer)
	if !ok {
		panic(pathEnd{"notenc", fmt.Sprintf("binary.Read into %v", data.T)})
	}
	w, ok := intWidth(pt.Elem())
	if !ok {
		panic(pathEnd{"notenc", fmt.Sprintf("binary.Read into %v", data.T)})
	}
	n := w / 8
	buf := it.newZeroObject(types.Typ[types.Uint8], n, "")
	sl := &Slice{Obj: buf, Off: it.c64(0), Len: it.c64(int64(n)), Cap: it.c64(int64(n)), ECells: 1}
	res := it.callFunction(fr, it.pkgFunc("io", "ReadFull"), []Value{r, sl}, nil, nil).(Tuple)
	if !isNilIface(res[1]) {
		return res[1]
	}
	var v *Term
	for i := 0; i < n; i++ {
		var b *Term
		if big {
			b = buf.Cells[i].(*Term)
		} else {
			b = buf.Cells[n-1-i].(*Term)
		}
		if v == nil {
			v = b
		} else {
			v = st.Concat(v, b)
		}
	}
	var val Value = v
	if isBoolT(pt.Elem()) {
		val = st.Ne(v, st.Const(8, 0))
	}
	it.store(data.V.(*Ptr), val, pt.Elem())
	return it.nilError()
}

func stubBinaryWrite(it *Interp, fr *frame, cc *ssa.CallCommon, a []Value) Value {
	st := it.St
	wr := a[0].(*Iface)
	big := it.orderIsBig(a[1])
	data := a[2].(*Iface)
	t := data.T
	var val Value = data.V
	if pt, ok := t.(*types.Pointer); ok {
		t = pt.Elem()
		val = it.load(data.V.(*Ptr), t)
	}
	w, ok := intWidth(t)
	if !ok {
		panic(pathEnd{"notenc", fmt.Sprintf("binary.Write of %v", data.T)})
	}
	v := val.(*Term)
	if v.S.K == SBool {
		v = st.Ite(v, st.Const(8, 1), st.Const(8, 0))
	}
	n := w / 8
	cells := make([]*Term, n)
	for i := 0; i < n; i++ {
		b := st.Extract(v, 8*i+7, 8*i)
		if big {
			cells[n-1-i] = b
		} else {
			cells[i] = b
		}
	}
	sl := it.newByteSlice(cells)
	res := it.invokeByName(fr, wr, "Write", sl).(Tuple)
	return res[1]
}

// ---------------------------------------------------------------------------
// errors / fmt

func stubErrorsIs(it *Interp, fr *frame, cc *ssa.CallCommon, a []Value) Value {
	err := a[0].(*Iface)
	target := a[1].(*Iface)
	for depth := 0; depth < 16; depth++ {
		if err.T == nil {
			return it.St.Bool(target.T == nil)
		}
		eq := it.valueEq(err, target)
		if it.branchOrConst(eq) {
			return it.St.T
		}
		un := it.methodOf(err.T, "Unwrap")
		if un == nil {
			return it.St.F
		}
		if un.Signature.Results().Len() != 1 {
			return it.St.F
		}
		if _, ok := under(un.Signature.Results().At(0).Type()).(*types.Interface); !ok {
			return it.St.F
		}
		err = it.callFunction(fr, un, []Value{err.V}, nil, nil).(*Iface)
	}
	return it.St.F
}

// variadic ...any argument slice -> []*Iface
func (it *Interp) anyArgs(v Value) []*Iface {
	sl := v.(*Slice)
	if sl.Obj == nil {
		return nil
	}
	n := int(it.concretize(sl.Len))
	r := make([]*Iface, n)
	for i := range r {
		r[i] = it.loadCell(sl.Obj, it.St.Add(sl.Off, it.c64(int64(i)))).(*Iface)
	}
	return r
}

func stubErrorf(it *Interp, fr *frame, cc *ssa.CallCommon, a []Value) Value {
	format, _ := it.concreteStr(a[0].(*Str))
	args := it.anyArgs(a[1])
	msg := it.tryFormat(fr, format, args)
	if strings.Contains(format, "%w") {
		var wrapped *Iface
		for _, x := range args {
			if x.T != nil && it.methodOf(x.T, "Error") != nil {
				wrapped = x
			}
		}
		if wrapped != nil {
			t := it.namedType("fmt", "wrapError")
			o := it.newObject(2, "")
			o.Cells[0] = msg
			o.Cells[1] = wrapped
			return &Iface{T: types.NewPointer(t), V: &Ptr{Obj: o, Off: it.c64(0)}}
		}
	}
	t := it.namedType("errors", "errorString")
	o := it.newObject(1, "")
	o.Cells[0] = msg
	return &Iface{T: types.NewPointer(t), V: &Ptr{Obj: o, Off: it.c64(0)}}
}

func stubSprintf(it *Interp, fr *frame, cc *ssa.CallCommon, a []Value) Value {
	format, ok := it.concreteStr(a[0].(*Str))
	if !ok {
		return it.opaqueStr("Sprintf")
	}
	return it.tryFormat(fr, format, it.anyArgs(a[1]))
}

// tryFormat formats exactly when the verbs are %d/%0Nd/%s/%v on integers and strings;
// symbolic integers with %0Nd are rendered through digit variables (see digits.go).
func (it *Interp) tryFormat(fr *frame, format string, args []*Iface) *Str {
	var parts []*Str
	lit := func(s string) {
		if s != "" {
			parts = append(parts, it.constStr(s))
		}
	}
	ai := 0
	i := 0
	start := 0
	for i < len(format) {
		if format[i] != '%' {
			i++
			continue
		}
		lit(format[start:i])
		i++
		if i >= len(format) {
			break
		}
		if format[i] == '%' {
			lit("%")
			i++
			start = i
			continue
		}
		// flags / width
		zero := false
		width := 0
		for i < len(format) && (format[i] == '0' && width == 0 || format[i] == '+' || format[i] == '#' || format[i] == '-' || format[i] == ' ') {
			if format[i] == '0' {
				zero = true
			} else {
				return it.opaqueStr("fmt:" + format)
			}
			i++
		}
		for i < len(format) && format[i] >= '0' && format[i] <= '9' {
			width = width*10 + int(format[i]-'0')
			i++
		}
		if i < len(format) && format[i] == '.' {
			return it.opaqueStr("fmt:" + format)
		}
		if i >= len(format) {
			break
		}
		verb := format[i]
		i++
		start = i
		if ai >= len(args) {
			lit("%!" + string(verb) + "(MISSING)")
			continue
		}
		arg := args[ai]
		ai++
		switch verb {
		case 'd':
			t, ok := arg.V.(*Term)
			if !ok || arg.T == nil || !isInteger(arg.T) {
				return it.opaqueStr("fmt:" + format)
			}
			parts = append(parts, it.formatInt(t, isSigned(arg.T), width, zero))
		case 's', 'v', 'w':
			if arg.T == nil {
				if verb == 's' {
					lit("%!s(<nil>)")
				} else {
					lit("<nil>")
				}
				continue
			}
			switch x := arg.V.(type) {
			case *Str:
				if width != 0 {
					return it.opaqueStr("fmt:" + format)
				}
				parts = append(parts, x)
			case *Term:
				if verb == 'v' && isInteger(arg.T) && it.methodOf(arg.T, "String") == nil && it.methodOf(arg.T, "Error") == nil {
					parts = append(parts, it.formatInt(x, isSigned(arg.T), width, zero))
				} else if m := it.methodOf(arg.T, "String"); m != nil && verb != 'd' {
					parts = append(parts, it.callFunction(fr, m, []Value{arg.V}, nil, nil).(*Str))
				} else {
					return it.opaqueStr("fmt:" + format)
				}
			default:
				if m := it.methodOf(arg.T, "Error"); m != nil {
					parts = append(parts, it.callFunction(fr, m, []Value{arg.V}, nil, nil).(*Str))
				} else if m := it.methodOf(arg.T, "String"); m != nil {
					parts = append(parts, it.callFunction(fr, m, []Value{arg.V}, nil, nil).(*Str))
				} else {
					return it.opaqueStr("fmt:" + format)
				}
			}
		default:
			return it.opaqueStr("fmt:" + format)
		}
	}
	lit(format[start:])
	if len(parts) == 0 {
		return it.constStr("")
	}
	if len(parts) == 1 {
		return parts[0]
	}
	return it.strConcat(parts)
}

// ---------------------------------------------------------------------------
// md5 as an uninterpreted function

func stubMD5Sum(it *Interp, fr *frame, cc *ssa.CallCommon, a []Value) Value {
	v := it.viewOf(a[0])
	n := int(it.concretize(v.ln))
	cells := make([]*Term, n)
	for i := 0; i < n; i++ {
		cells[i] = it.cellAtI(v, i)
	}
	d := it.md5Of(cells)
	out := &Agg{Cells: make([]Value, 16)}
	for i := range d {
		out.Cells[i] = d[i]
	}
	return out
}

type md5App struct {
	args []*Term
	out  []*Term
}

// md5Of models MD5 as an uninterpreted function: concrete arguments are hashed for real,
// symbolic ones get 16 fresh octets per distinct argument vector plus congruence
// constraints (equal arguments => equal digests) against every earlier application of
// the same length on this path.
func (it *Interp) md5Of(cells []*Term) []*Term {
	allConst := true
	for _, c := range cells {
		if !c.IsConst() {
			allConst = false
		}
	}
	out := make([]*Term, 16)
	if allConst {
		b := make([]byte, len(cells))
		for i, c := range cells {
			b[i] = byte(c.Val)
		}
		d := md5.Sum(b)
		for i := range d {
			out[i] = it.St.Const(8, uint64(d[i]))
		}
		return out
	}
	var sb strings.Builder
	for _, c := range cells {
		fmt.Fprintf(&sb, "%d,", c.ID)
	}
	key := sb.String()
	if it.md5Keys == nil {
		it.md5Keys = map[string]int{}
	}
	id, ok := it.md5Keys[key]
	if !ok {
		id = len(it.md5Keys) + 1
		it.md5Keys[key] = id
	}
	for i := 0; i < 16; i++ {
		out[i] = it.St.Var(fmt.Sprintf("md5#%d[%d]", id, i), BV(8))
	}
	for _, e := range it.md5Apps {
		if len(e.args) != len(cells) || e.out[0] == out[0] {
			continue
		}
		same := it.St.T
		for i := range cells {
			same = it.St.And(same, it.St.Eq(cells[i], e.args[i]))
		}
		if same.IsFalse() {
			continue
		}
		eq := it.St.T
		for i := 0; i < 16; i++ {
			eq = it.St.And(eq, it.St.Eq(out[i], e.out[i]))
		}
		it.pushPC(it.St.Implies(same, eq))
	}
	it.md5Apps = append(it.md5Apps, md5App{args: cells, out: out})
	return out
}

// md5.New(): a *md5.digest whose written octets are accumulated by the engine
func stubMD5New(it *Interp, fr *frame, cc *ssa.CallCommon, a []Value) Value {
	t := it.namedType("crypto/md5", "digest")
	o := it.newZeroObject(t, 1, "md5")
	if it.md5Acc == nil {
		it.md5Acc = map[*Object][]*Term{}
	}
	it.md5Acc[o] = nil
	return &Iface{T: types.NewPointer(t), V: &Ptr{Obj: o, Off: it.c64(0)}}
}

func stubMD5Write(it *Interp, fr *frame, cc *ssa.CallCommon, a []Value) Value {
	p := a[0].(*Ptr)
	v := it.viewOf(a[1])
	n := int(it.concretize(v.ln))
	for i := 0; i < n; i++ {
		it.md5Acc[p.Obj] = append(it.md5Acc[p.Obj], it.cellAtI(v, i))
	}
	return Tuple{it.c64(int64(n)), it.nilError()}
}

func stubMD5SumMethod(it *Interp, fr *frame, cc *ssa.CallCommon, a []Value) Value {
	p := a[0].(*Ptr)
	in := a[1].(*Slice)
	d := it.md5Of(it.md5Acc[p.Obj])
	return it.appendOp(in, it.newByteSlice(d), types.Typ[types.Uint8])
}

// ---------------------------------------------------------------------------
// pools

func (it *Interp) bbType() types.Type {
	return it.namedType("github.com/valyala/bytebufferpool", "ByteBuffer")
}

func stubBBPGet(it *Interp, fr *frame, cc *ssa.CallCommon, a []Value) Value {
	o := it.newZeroObject(it.bbType(), 1, "")
	if it.PoolStale > 0 {
		it.freshN["pool"]++
		k := it.freshN["pool"]
		bo := it.newObject(it.PoolStale, "pool")
		for i := range bo.Cells {
			bo.Cells[i] = it.symVar(fmt.Sprintf("stale%d[%d]", k, i), 8)
		}
		o.Cells[0] = &Slice{Obj: bo, Off: it.c64(0), Len: it.c64(0), Cap: it.c64(int64(it.PoolStale)), ECells: 1}
	}
	return &Ptr{Obj: o, Off: it.c64(0)}
}

func stubBBPPut(it *Interp, fr *frame, cc *ssa.CallCommon, a []Value) Value {
	p := a[0].(*Ptr)
	if p.Obj == nil {
		return nil
	}
	b := it.loadCell(p.Obj, p.Off).(*Slice)
	if it.Monitor && it.path != nil {
		// the same buffer handed back twice: the pool then gives it to two owners at once
		if it.poolPut == nil {
			it.poolPut = map[*Object]bool{}
		}
		if it.poolPut[p.Obj] {
			it.path.MonitorHits = append(it.path.MonitorHits, "C13.double-put: a pooled buffer is returned to the pool twice (two later owners would share it) in "+it.curFn())
		}
		it.poolPut[p.Obj] = true
	}
	if it.Monitor && b.Obj != nil {
		b.Obj.Tag = "pool-released"
	}
	if it.PoolStale > 0 && b.Obj != nil && !it.Monitor {
		// whoever gets this buffer next may write anything into it
		it.freshN["put"]++
		k := it.freshN["put"]
		for i := range b.Obj.Cells {
			it.setCell(b.Obj, i, it.symVar(fmt.Sprintf("reuse%d[%d]", k, i), 8))
		}
		b.Obj.Tag = "pool-released"
	}
	return nil
}

func stubSyncPoolGet(it *Interp, fr *frame, cc *ssa.CallCommon, a []Value) Value {
	p := a[0].(*Ptr)
	st := under(it.namedType("sync", "Pool")).(*types.Struct)
	for i := 0; i < st.NumFields(); i++ {
		if st.Field(i).Name() == "New" {
			off := it.fieldOff(st, i)
			f := it.loadCell(p.Obj, it.St.Add(p.Off, it.c64(int64(off)))).(*Func)
			if f.Fn == nil && f.Native == nil {
				return &Iface{}
			}
			return it.callValue(fr, f, nil, nil)
		}
	}
	return &Iface{}
}

// ---------------------------------------------------------------------------
// errgroup

func stubErrgroupGo(it *Interp, fr *frame, cc *ssa.CallCommon, a []Value) Value {
	g := a[0].(*Ptr)
	f := a[1].(*Func)
	if !it.GoOrderAll {
		it.callValue(fr, f, nil, nil)
		return nil
	}
	it.egQueue[g.Obj] = append(it.egQueue[g.Obj], f)
	return nil
}

func stubErrgroupWait(it *Interp, fr *frame, cc *ssa.CallCommon, a []Value) Value {
	g := a[0].(*Ptr)
	q := it.egQueue[g.Obj]
	delete(it.egQueue, g.Obj)
	var sets []map[*Object]bool
	for len(q) > 0 {
		c := 0
		if len(q) > 1 {
			c = it.choose(len(q))
		}
		f := q[c]
		q = append(q[:c:c], q[c+1:]...)
		if it.Monitor {
			it.closureWrites = map[*Object]bool{}
			it.closureBase = it.nextObj
		}
		it.callValue(fr, f, nil, nil)
		if it.Monitor {
			sets = append(sets, it.closureWrites)
			it.closureWrites = nil
		}
	}
	for i := range sets {
		for j := i + 1; j < len(sets); j++ {
			for o := range sets[i] {
				if sets[j][o] && it.path != nil {
					it.path.MonitorHits = append(it.path.MonitorHits, fmt.Sprintf("C13.goroutine-write-sets-overlap: two goroutines started by the batch encoder both write object o%d (%s)", o.ID, o.Label))
				}
			}
		}
	}
	return it.nilError()
}

// ---------------------------------------------------------------------------
// strings.Builder (fields: addr *Builder; buf []byte)

func (it *Interp) builderBuf(p *Ptr) *Slice {
	if p.Obj == nil {
		it.throw("nil *strings.Builder")
	}
	return it.loadCell(p.Obj, it.St.Add(p.Off, it.c64(1))).(*Slice)
}

func (it *Interp) builderAppend(p *Ptr, data Value) *Term {
	b := it.builderBuf(p)
	if b.ECells == 0 {
		b = &Slice{Obj: b.Obj, Off: b.Off, Len: b.Len, Cap: b.Cap, ECells: 1}
	}
	nb := it.appendOp(b, data, types.Typ[types.Uint8])
	it.storeCell(p.Obj, it.St.Add(p.Off, it.c64(1)), nb, nil)
	return it.lenOf(data)
}
