package sym

import (
	"fmt"
	"go/token"
	"go/types"

	"golang.org/x/tools/go/ssa"
)

// view is a read-only window on byte cells.
type view struct {
	obj *Object
	off *Term
	ln  *Term
	max int
}

func (it *Interp) viewStr(s *Str) view {
	return view{obj: s.Obj, off: s.Off, ln: s.Len, max: it.strCap(s)}
}

func (it *Interp) viewSlice(s *Slice) view {
	if s.Obj == nil {
		return view{obj: &Object{ID: -3}, off: it.c64(0), ln: it.c64(0), max: 0}
	}
	return view{obj: s.Obj, off: s.Off, ln: s.Len, max: it.sliceMaxLen(s)}
}

func (it *Interp) viewOf(v Value) view {
	switch x := v.(type) {
	case *Str:
		return it.viewStr(x)
	case *Slice:
		return it.viewSlice(x)
	}
	panic(pathEnd{"notenc", "byte view of " + describe(v)})
}

var zero8 *Term

// cellAt returns the byte at index k (a term) of the view; out-of-range concrete indexes give 0.
func (it *Interp) cellAt(v view, k *Term) *Term {
	off := it.St.Add(v.off, k)
	if off.IsConst() {
		i := int64(off.Val)
		if i < 0 || i >= int64(len(v.obj.Cells)) {
			return it.St.Const(8, 0)
		}
	} else if len(v.obj.Cells) == 0 {
		return it.St.Const(8, 0)
	}
	c := it.loadCell(v.obj, off)
	t, ok := c.(*Term)
	if !ok {
		panic(pathEnd{"notenc", "non-scalar cell in byte view"})
	}
	return t
}

func (it *Interp) cellAtI(v view, k int) *Term { return it.cellAt(v, it.c64(int64(k))) }

func (it *Interp) viewEq(x, y view) *Term {
	st := it.St
	if x.ln.IsConst() && y.ln.IsConst() && x.ln.Val != y.ln.Val {
		return st.F
	}
	r := st.Eq(x.ln, y.ln)
	n := minInt(x.max, y.max)
	for k := 0; k < n; k++ {
		ce := st.Eq(it.cellAtI(x, k), it.cellAtI(y, k))
		if !x.ln.IsConst() || !y.ln.IsConst() {
			ce = st.Or(st.Ule(x.ln, it.c64(int64(k))), ce)
		}
		r = st.And(r, ce)
		if r.IsFalse() {
			return r
		}
	}
	return r
}

func (it *Interp) strEq(x, y *Str) *Term { return it.viewEq(it.viewStr(x), it.viewStr(y)) }

func (it *Interp) strCmp(op token.Token, x, y *Str) Value {
	a, ok1 := it.concreteStr(x)
	b, ok2 := it.concreteStr(y)
	if !ok1 || !ok2 {
		panic(pathEnd{"notenc", "ordering comparison of symbolic strings"})
	}
	var r bool
	switch op {
	case token.LSS:
		r = a < b
	case token.LEQ:
		r = a <= b
	case token.GTR:
		r = a > b
	case token.GEQ:
		r = a >= b
	}
	return it.St.Bool(r)
}

// concatViews builds a fresh byte object holding the concatenation of the views.
func (it *Interp) concatViews(parts []view) (*Object, *Term) {
	st := it.St
	allConst := true
	total := it.c64(0)
	capSum := 0
	for _, p := range parts {
		if !p.ln.IsConst() {
			allConst = false
		}
		total = st.Add(total, p.ln)
		capSum += p.max
	}
	if allConst {
		o := it.newObject(int(total.Val), "")
		k := 0
		for _, p := range parts {
			for i := 0; i < int(p.ln.Val); i++ {
				o.Cells[k] = it.cellAtI(p, i)
				k++
			}
		}
		return o, total
	}
	if total.IsConst() && int(total.Val) < capSum {
		capSum = int(total.Val)
	}
	if capSum > it.AllocLimit*4 {
		panic(pathEnd{"abort", "symbolic concat too large"})
	}
	o := it.newObject(capSum, "")
	// start offsets
	starts := make([]*Term, len(parts))
	s := it.c64(0)
	for i, p := range parts {
		starts[i] = s
		s = st.Add(s, p.ln)
	}
	for k := 0; k < capSum; k++ {
		kk := it.c64(int64(k))
		var val *Term = st.Const(8, 0)
		for i := len(parts) - 1; i >= 0; i-- {
			p := parts[i]
			if p.max == 0 {
				continue
			}
			// k in [start_i, start_i+len_i)
			end := st.Add(starts[i], p.ln)
			in := st.And(st.Ule(starts[i], kk), st.Ult(kk, end))
			if in.IsFalse() {
				continue
			}
			c := it.cellAt(p, st.Sub(kk, starts[i]))
			val = st.Ite(in, c, val)
		}
		o.Cells[k] = val
	}
	return o, total
}

func (it *Interp) strConcat(parts []*Str) *Str {
	vs := make([]view, len(parts))
	for i, p := range parts {
		vs[i] = it.viewStr(p)
	}
	o, n := it.concatViews(vs)
	return &Str{Obj: o, Off: it.c64(0), Len: n}
}

func (it *Interp) copyView(v view) *Object {
	o := it.newObject(v.max, "")
	for k := 0; k < v.max; k++ {
		o.Cells[k] = it.cellAtI(v, k)
	}
	return o
}

func (it *Interp) bytesToStr(s *Slice) *Str {
	if s.Obj == nil {
		return it.constStr("")
	}
	v := it.viewSlice(s)
	return &Str{Obj: it.copyView(v), Off: it.c64(0), Len: s.Len}
}

func (it *Interp) strToBytes(s *Str) *Slice {
	v := it.viewStr(s)
	return &Slice{Obj: it.copyView(v), Off: it.c64(0), Len: s.Len, Cap: s.Len, ECells: 1}
}

func (it *Interp) newByteSlice(cells []*Term) *Slice {
	o := it.newObject(len(cells), "")
	for i, c := range cells {
		o.Cells[i] = c
	}
	n := it.c64(int64(len(cells)))
	return &Slice{Obj: o, Off: it.c64(0), Len: n, Cap: n, ECells: 1}
}

func (it *Interp) newStr(cells []*Term) *Str {
	o := it.newObject(len(cells), "")
	for i, c := range cells {
		o.Cells[i] = c
	}
	return &Str{Obj: o, Off: it.c64(0), Len: it.c64(int64(len(cells)))}
}

// ---------------------------------------------------------------------------
// UTF-8

func (it *Interp) between(b *Term, lo, hi uint64) *Term {
	st := it.St
	return st.And(st.Ule(st.Const(8, lo), b), st.Ule(b, st.Const(8, hi)))
}

// encodeRune returns the UTF-8 bytes of r (32-bit term), forking on the length class.
func (it *Interp) encodeRune(r *Term) []*Term {
	st := it.St
	c := func(v uint64) *Term { return st.Const(32, v) }
	b8 := func(t *Term) *Term { return st.Extract(t, 7, 0) }
	if it.branch(st.Ult(r, c(0x80))) {
		return []*Term{b8(r)}
	}
	if it.branch(st.Ult(r, c(0x800))) {
		return []*Term{
			b8(st.BOr(c(0xC0), st.LShr(r, c(6)))),
			b8(st.BOr(c(0x80), st.BAnd(r, c(0x3F)))),
		}
	}
	bad := st.Or(st.And(st.Ule(c(0xD800), r), st.Ule(r, c(0xDFFF))), st.Ult(c(0x10FFFF), r))
	if it.branch(bad) {
		return []*Term{st.Const(8, 0xEF), st.Const(8, 0xBF), st.Const(8, 0xBD)}
	}
	if it.branch(st.Ult(r, c(0x10000))) {
		return []*Term{
			b8(st.BOr(c(0xE0), st.LShr(r, c(12)))),
			b8(st.BOr(c(0x80), st.BAnd(st.LShr(r, c(6)), c(0x3F)))),
			b8(st.BOr(c(0x80), st.BAnd(r, c(0x3F)))),
		}
	}
	return []*Term{
		b8(st.BOr(c(0xF0), st.LShr(r, c(18)))),
		b8(st.BOr(c(0x80), st.BAnd(st.LShr(r, c(12)), c(0x3F)))),
		b8(st.BOr(c(0x80), st.BAnd(st.LShr(r, c(6)), c(0x3F)))),
		b8(st.BOr(c(0x80), st.BAnd(r, c(0x3F)))),
	}
}

func (it *Interp) runeToStr(r *Term) *Str { return it.newStr(it.encodeRune(r)) }

// decodeRune decodes one rune at byte position pos (concrete int) of v, whose length
// must be concrete or pos < len already established. Returns rune term and size.
func (it *Interp) decodeRune(v view, pos int, remaining *Term) (*Term, int) {
	st := it.St
	b0 := it.cellAtI(v, pos)
	z := func(t *Term) *Term { return st.Zext(t, 32) }
	c := func(x uint64) *Term { return st.Const(32, x) }
	if it.branch(st.Ult(b0, st.Const(8, 0x80))) {
		return z(b0), 1
	}
	has := func(n int) *Term { return st.Ule(it.c64(int64(n)), remaining) }
	cont := func(b *Term) *Term { return it.between(b, 0x80, 0xBF) }
	b1 := it.cellAtI(v, pos+1)
	two := st.AndN(has(2), it.between(b0, 0xC2, 0xDF), cont(b1))
	if !two.IsFalse() && it.branch(two) {
		r := st.BOr(st.Shl(st.BAnd(z(b0), c(0x1F)), c(6)), st.BAnd(z(b1), c(0x3F)))
		return r, 2
	}
	b2 := it.cellAtI(v, pos+2)
	e0 := st.And(st.Eq(b0, st.Const(8, 0xE0)), it.between(b1, 0xA0, 0xBF))
	ed := st.And(st.Eq(b0, st.Const(8, 0xED)), it.between(b1, 0x80, 0x9F))
	eo := st.And(st.Or(it.between(b0, 0xE1, 0xEC), it.between(b0, 0xEE, 0xEF)), cont(b1))
	three := st.AndN(has(3), st.OrN(e0, ed, eo), cont(b2))
	if !three.IsFalse() && it.branch(three) {
		r := st.BOr(st.BOr(st.Shl(st.BAnd(z(b0), c(0x0F)), c(12)), st.Shl(st.BAnd(z(b1), c(0x3F)), c(6))), st.BAnd(z(b2), c(0x3F)))
		return r, 3
	}
	b3 := it.cellAtI(v, pos+3)
	f0 := st.And(st.Eq(b0, st.Const(8, 0xF0)), it.between(b1, 0x90, 0xBF))
	f4 := st.And(st.Eq(b0, st.Const(8, 0xF4)), it.between(b1, 0x80, 0x8F))
	fo := st.And(it.between(b0, 0xF1, 0xF3), cont(b1))
	four := st.AndN(has(4), st.OrN(f0, f4, fo), cont(b2), cont(b3))
	if !four.IsFalse() && it.branch(four) {
		r := st.BOr(st.BOr(st.Shl(st.BAnd(z(b0), c(0x07)), c(18)), st.Shl(st.BAnd(z(b1), c(0x3F)), c(12))),
			st.BOr(st.Shl(st.BAnd(z(b2), c(0x3F)), c(6)), st.BAnd(z(b3), c(0x3F))))
		return r, 4
	}
	return c(0xFFFD), 1
}

func (it *Interp) strToRunes(s *Str) *Slice {
	n := int(it.concretize(s.Len))
	v := it.viewStr(s)
	var rs []Value
	pos := 0
	for pos < n {
		r, sz := it.decodeRune(v, pos, it.c64(int64(n-pos)))
		rs = append(rs, r)
		pos += sz
	}
	o := it.newObject(len(rs), "")
	copy(o.Cells, rs)
	ln := it.c64(int64(len(rs)))
	return &Slice{Obj: o, Off: it.c64(0), Len: ln, Cap: ln, ECells: 1}
}

func (it *Interp) runesToStr(s *Slice) *Str {
	n := int(it.concretize(s.Len))
	var cells []*Term
	for i := 0; i < n; i++ {
		r := it.loadCell(s.Obj, it.St.Add(s.Off, it.c64(int64(i)))).(*Term)
		cells = append(cells, it.encodeRune(r)...)
	}
	return it.newStr(cells)
}

// ---------------------------------------------------------------------------
// builtins

func (it *Interp) lenOf(v Value) *Term {
	switch x := v.(type) {
	case *Str:
		return x.Len
	case *Slice:
		return x.Len
	case *MapV:
		if x.M == nil {
			return it.c64(0)
		}
		return it.c64(int64(len(x.M.Keys)))
	case *Ptr:
		return it.c64(0)
	}
	panic(pathEnd{"notenc", "len of " + describe(v)})
}

func (it *Interp) callBuiltin(fr *frame, b *ssa.Builtin, args []Value, site *ssa.CallCommon) Value {
	st := it.St
	switch b.Name() {
	case "len":
		if site != nil {
			if pt, ok := under(site.Args[0].Type()).(*types.Pointer); ok {
				return it.c64(under(pt.Elem()).(*types.Array).Len())
			}
			if at, ok := under(site.Args[0].Type()).(*types.Array); ok {
				return it.c64(at.Len())
			}
		}
		return it.lenOf(args[0])
	case "cap":
		if site != nil {
			if pt, ok := under(site.Args[0].Type()).(*types.Pointer); ok {
				return it.c64(under(pt.Elem()).(*types.Array).Len())
			}
			if at, ok := under(site.Args[0].Type()).(*types.Array); ok {
				return it.c64(at.Len())
			}
		}
		return args[0].(*Slice).Cap
	case "append":
		var et types.Type
		if site != nil {
			et = under(site.Args[0].Type()).(*types.Slice).Elem()
		}
		return it.appendOp(args[0].(*Slice), args[1], et)
	case "copy":
		return it.copyOp(args[0].(*Slice), args[1])
	case "delete":
		it.mapDelete(args[0].(*MapV), args[1])
		return nil
	case "recover":
		if len(it.panicking) > 0 {
			f := it.panicking[len(it.panicking)-1]
			if f.panic != nil {
				p := f.panic
				f.panic = nil
				if p.Val == nil {
					return &Iface{T: types.Typ[types.String], V: it.constStr(p.Msg)}
				}
				return p.Val
			}
		}
		return &Iface{}
	case "print", "println":
		return nil
	case "min", "max":
		r := args[0].(*Term)
		signed := true
		if site != nil {
			signed = isSigned(site.Args[0].Type())
		}
		for _, a := range args[1:] {
			t := a.(*Term)
			var lt *Term
			if signed {
				lt = st.Slt(t, r)
			} else {
				lt = st.Ult(t, r)
			}
			if b.Name() == "max" {
				lt = st.Not(st.Or(lt, st.Eq(t, r)))
			}
			r = st.Ite(lt, t, r)
		}
		return r
	}
	panic(pathEnd{"notenc", "builtin " + b.Name()})
}

// Go runtime size classes (bytes), used to model append growth faithfully.
var sizeClasses = []int{0, 8, 16, 24, 32, 48, 64, 80, 96, 112, 128, 144, 160, 176, 192, 208, 224, 240, 256, 288, 320, 352, 384, 416, 448, 480, 512, 576, 640, 704, 768, 896, 1024, 1152, 1280, 1408, 1536, 1792, 2048, 2304, 2688, 3072, 3200, 3456, 4096, 4864, 5376, 6144, 6528, 6784, 6912, 8192, 9472, 9728, 10240, 10880, 12288, 13568, 14336, 16384, 18432, 19072, 20480, 21760, 24576, 27264, 28672, 32768}

func roundupsize(n int) int {
	if n <= 32768 {
		for _, c := range sizeClasses {
			if c >= n {
				return c
			}
		}
	}
	return (n + 8191) / 8192 * 8192
}

// growCap models runtime.growslice's capacity computation (go1.20+).
func growCap(oldCap, newLen, elemSize int) int {
	newcap := oldCap
	doublecap := newcap + newcap
	if newLen > doublecap {
		newcap = newLen
	} else {
		const threshold = 256
		if oldCap < threshold {
			newcap = doublecap
		} else {
			for newcap < newLen {
				newcap += (newcap + 3*threshold) >> 2
			}
		}
	}
	if elemSize <= 0 {
		return newcap
	}
	mem := roundupsize(newcap * elemSize)
	return mem / elemSize
}

func (it *Interp) elemSize(et types.Type) int {
	if et == nil {
		return 1
	}
	return int(it.Sizes.Sizeof(et))
}

func (it *Interp) appendOp(s *Slice, elems Value, et types.Type) Value {
	st := it.St
	var src *Slice
	switch e := elems.(type) {
	case *Slice:
		src = e
	case *Str:
		v := it.viewStr(e)
		src = &Slice{Obj: v.obj, Off: v.off, Len: v.ln, Cap: v.ln, ECells: 1}
		if s.ECells == 0 {
			s = &Slice{Obj: s.Obj, Off: s.Off, Len: s.Len, Cap: s.Cap, ECells: 1}
		}
	default:
		panic(pathEnd{"notenc", "append of " + describe(elems)})
	}
	ec := s.ECells
	if ec == 0 {
		ec = src.ECells
	}
	if src.Obj == nil || (src.Len.IsConst() && src.Len.Val == 0) {
		return s
	}
	newLen := st.Add(s.Len, src.Len)
	fits := st.Ule(newLen, s.Cap)
	if s.Obj != nil && it.branchOrConst(fits) {
		// in place
		dst := &Slice{Obj: s.Obj, Off: st.Add(s.Off, st.Mul(s.Len, it.c64(int64(ec)))), Len: src.Len, Cap: src.Len, ECells: ec}
		it.copyCells(dst, src, src.Len)
		return &Slice{Obj: s.Obj, Off: s.Off, Len: newLen, Cap: s.Cap, ECells: ec}
	}
	// grow: need concrete old cap and new length
	oldCap := int(it.concretize(s.Cap))
	nl := int(it.concretize(newLen))
	oldLen := int(it.concretize(s.Len))
	nc := growCap(oldCap, nl, it.elemSize(et))
	if nc < nl {
		nc = nl
	}
	if nc*ec > 1<<22 {
		panic(pathEnd{"abort", "append result too large to model"})
	}
	o := it.newObject(nc*ec, "")
	var zc []Value
	if et != nil {
		zc = it.appendZero(et, nil)
	}
	for i := range o.Cells {
		if zc != nil && len(zc) == ec {
			o.Cells[i] = zc[i%ec]
		} else if s.Obj != nil && len(s.Obj.Cells) > 0 {
			o.Cells[i] = zeroLike(it, s.Obj.Cells[0])
		} else if len(src.Obj.Cells) > 0 {
			o.Cells[i] = zeroLike(it, src.Obj.Cells[0])
		}
	}
	res := &Slice{Obj: o, Off: it.c64(0), Len: it.c64(int64(nl)), Cap: it.c64(int64(nc)), ECells: ec}
	if s.Obj != nil && oldLen > 0 {
		it.copyCells(res, &Slice{Obj: s.Obj, Off: s.Off, Len: it.c64(int64(oldLen)), Cap: s.Cap, ECells: ec}, it.c64(int64(oldLen)))
	}
	dst := &Slice{Obj: o, Off: it.c64(int64(oldLen * ec)), Len: src.Len, Cap: src.Len, ECells: ec}
	it.copyCells(dst, src, it.c64(int64(nl-oldLen)))
	return res
}

func zeroLike(it *Interp, v Value) Value {
	switch x := v.(type) {
	case *Term:
		switch x.S.K {
		case SBool:
			return it.St.F
		case SBV:
			return it.St.Const(x.S.W, 0)
		default:
			return it.St.FConst(0)
		}
	case *Ptr:
		return &Ptr{}
	case *Slice:
		z := it.c64(0)
		return &Slice{Off: z, Len: z, Cap: z, ECells: x.ECells}
	case *Str:
		return it.constStr("")
	case *Iface:
		return &Iface{}
	case *MapV:
		return &MapV{}
	case *Func:
		return &Func{}
	}
	return v
}

// copyCells copies count elements from src to dst (element granularity, memmove semantics).
func (it *Interp) copyCells(dst, src *Slice, count *Term) {
	st := it.St
	ec := dst.ECells
	if ec == 0 {
		ec = 1
	}
	var maxN int
	if count.IsConst() {
		maxN = int(count.Val)
	} else {
		_, hi := st.rangeOf(count)
		maxN = minInt(it.sliceMaxLenObj(dst), it.sliceMaxLenObj(src))
		if hi < uint64(maxN) {
			maxN = int(hi)
		}
	}
	if maxN == 0 {
		return
	}
	it.steps += maxN * ec / 4 // bulk copies count towards the instruction budget
	// read everything first
	vals := make([]Value, maxN*ec)
	for k := 0; k < maxN*ec; k++ {
		off := st.Add(src.Off, it.c64(int64(k)))
		if off.IsConst() && int(off.Val) >= len(src.Obj.Cells) {
			vals[k] = nil
			continue
		}
		vals[k] = it.loadCell(src.Obj, off)
	}
	for k := 0; k < maxN*ec; k++ {
		if vals[k] == nil {
			continue
		}
		var cond *Term
		if !count.IsConst() {
			cond = st.Ult(it.c64(int64(k/ec)), count)
		}
		off := st.Add(dst.Off, it.c64(int64(k)))
		if off.IsConst() && int(off.Val) >= len(dst.Obj.Cells) {
			continue
		}
		it.storeCell(dst.Obj, off, vals[k], cond)
	}
}

// sliceMaxLenObj: upper bound on elements addressable from the slice's offset.
func (it *Interp) sliceMaxLenObj(s *Slice) int {
	if s.Obj == nil {
		return 0
	}
	ec := maxInt(s.ECells, 1)
	n := len(s.Obj.Cells) / ec
	if s.Off.IsConst() {
		n -= int(s.Off.Val) / ec
	}
	if s.Len.IsConst() && int(s.Len.Val) < n {
		n = int(s.Len.Val)
	} else if !s.Len.IsConst() {
		_, hi := it.St.rangeOf(s.Len)
		if hi < uint64(n) {
			n = int(hi)
		}
	}
	return n
}

func (it *Interp) copyOp(dst *Slice, srcv Value) Value {
	st := it.St
	var src *Slice
	switch e := srcv.(type) {
	case *Slice:
		src = e
	case *Str:
		v := it.viewStr(e)
		src = &Slice{Obj: v.obj, Off: v.off, Len: v.ln, Cap: v.ln, ECells: 1}
	}
	if dst.Obj == nil || src.Obj == nil {
		return it.c64(0)
	}
	n := st.Ite(st.Ult(src.Len, dst.Len), src.Len, dst.Len)
	it.copyCells(dst, src, n)
	return n
}

func (it *Interp) doGo(fr *frame, x *ssa.Go) {
	// goroutines are run to completion at the spawn point (sequentialisation);
	// see DESIGN.md C13 for what is and is not claimed about schedules.
	it.doCall(fr, &x.Call)
}

var _ = fmt.Sprintf
