package sym

import (
	"encoding/hex"
	"fmt"
	"go/types"
	"strings"

	"golang.org/x/tools/go/ssa"
)

const repoModule = "github.com/hujm2023/go-sms-protocol"

// intrinsics are the harness vocabulary (see /verif/harness/support/zz_verif_support.go for
// the native implementations used when a model is replayed against the real build).
var intrinsics map[string]StubFn

func init() {
	intrinsics = map[string]StubFn{
		"vU8":          func(it *Interp, fr *frame, cc *ssa.CallCommon, a []Value) Value { return it.symVar(it.strArg(a[0]), 8) },
		"vU16":         func(it *Interp, fr *frame, cc *ssa.CallCommon, a []Value) Value { return it.symVar(it.strArg(a[0]), 16) },
		"vU32":         func(it *Interp, fr *frame, cc *ssa.CallCommon, a []Value) Value { return it.symVar(it.strArg(a[0]), 32) },
		"vU64":         func(it *Interp, fr *frame, cc *ssa.CallCommon, a []Value) Value { return it.symVar(it.strArg(a[0]), 64) },
		"vInt":         func(it *Interp, fr *frame, cc *ssa.CallCommon, a []Value) Value { return it.symVar(it.strArg(a[0]), 64) },
		"vBool":        inBool,
		"vBytes":       inBytes,
		"vString":      inString,
		"vStringUpTo":  inStringUpTo,
		"vParam":       inParam,
		"vAssume":      func(it *Interp, fr *frame, cc *ssa.CallCommon, a []Value) Value { it.assume(a[0].(*Term)); return nil },
		"vAssert":      func(it *Interp, fr *frame, cc *ssa.CallCommon, a []Value) Value { it.assertOb(it.strArg(a[0]), a[1].(*Term)); return nil },
		"vReach":       func(it *Interp, fr *frame, cc *ssa.CallCommon, a []Value) Value { it.path.Reached = append(it.path.Reached, it.strArg(a[0])); return nil },
		"vObserve":     inObserve,
		"vObserveErr":  inObserveErr,
		"vKnown":       inKnown,
		"vKnownClear":  func(it *Interp, fr *frame, cc *ssa.CallCommon, a []Value) Value { it.path.excuses = nil; return nil },
		"vEqBytes":     func(it *Interp, fr *frame, cc *ssa.CallCommon, a []Value) Value { return it.viewEq(it.viewOf(a[0]), it.viewOf(a[1])) },
		"vEqStr":       func(it *Interp, fr *frame, cc *ssa.CallCommon, a []Value) Value { return it.viewEq(it.viewOf(a[0]), it.viewOf(a[1])) },
		"vAnd":         func(it *Interp, fr *frame, cc *ssa.CallCommon, a []Value) Value { return it.St.And(a[0].(*Term), a[1].(*Term)) },
		"vOr":          func(it *Interp, fr *frame, cc *ssa.CallCommon, a []Value) Value { return it.St.Or(a[0].(*Term), a[1].(*Term)) },
		"vNot":         func(it *Interp, fr *frame, cc *ssa.CallCommon, a []Value) Value { return it.St.Not(a[0].(*Term)) },
		"vImplies":     func(it *Interp, fr *frame, cc *ssa.CallCommon, a []Value) Value { return it.St.Implies(a[0].(*Term), a[1].(*Term)) },
		"vIteInt":      func(it *Interp, fr *frame, cc *ssa.CallCommon, a []Value) Value { return it.St.Ite(a[0].(*Term), a[1].(*Term), a[2].(*Term)) },
		"vBudget":      inBudget,
		"vConcretize":  func(it *Interp, fr *frame, cc *ssa.CallCommon, a []Value) Value { return it.c64(int64(it.concretize(a[0].(*Term)))) },
		"vMapOrderAll": func(it *Interp, fr *frame, cc *ssa.CallCommon, a []Value) Value {
			it.MapOrderAll = a[0].(*Term).IsTrue()
			it.GoOrderAll = it.MapOrderAll
			return nil
		},
		"vRegister":    func(it *Interp, fr *frame, cc *ssa.CallCommon, a []Value) Value { return nil },
		"vHavoc":       inHavoc,
		"vNoNUL":       inNoNUL,
		"vAllInRange":  inAllInRange,
		"vAnyZero":     inAnyZero,
		"vSymbolic":    func(it *Interp, fr *frame, cc *ssa.CallCommon, a []Value) Value { return it.St.Bool(it.Concrete == nil) },
		"vAllocLimit":  func(it *Interp, fr *frame, cc *ssa.CallCommon, a []Value) Value { it.Params["__alloc_limit"] = int(it.concretize(a[0].(*Term))); return nil },
		"vPoolStale":   func(it *Interp, fr *frame, cc *ssa.CallCommon, a []Value) Value { it.PoolStale = int(it.concretize(a[0].(*Term))); return nil },
		"vSameBacking": inSameBacking,
		"vCountTrue":   inCountTrue,
		"vPad":         inPad,
		"vModelLimit":  func(it *Interp, fr *frame, cc *ssa.CallCommon, a []Value) Value { it.AllocLimit = it.intArg(a[0]); return nil },
		"vGSM7Text":    inGSM7Text,
		"vFPContracts": func(it *Interp, fr *frame, cc *ssa.CallCommon, a []Value) Value { it.FPContracts = a[0].(*Term).IsTrue(); return nil },
		"vConcretizeAlloc": func(it *Interp, fr *frame, cc *ssa.CallCommon, a []Value) Value { it.ConcretizeAlloc = a[0].(*Term).IsTrue(); return nil },
		"vAllocCheck":  func(it *Interp, fr *frame, cc *ssa.CallCommon, a []Value) Value { return nil },
		"vIdx":         inIdx,
	}
}

func (it *Interp) strArg(v Value) string {
	s, ok := it.concreteStr(v.(*Str))
	if !ok {
		panic("internal: harness string argument must be concrete")
	}
	return s
}

func (it *Interp) intArg(v Value) int {
	t := v.(*Term)
	if !t.IsConst() {
		panic("internal: harness integer argument must be concrete")
	}
	return int(t.Int())
}

func (it *Interp) symVar(name string, w int) *Term {
	if it.Concrete != nil {
		return it.St.Const(w, it.Concrete[name])
	}
	return it.St.Var(name, BV(w))
}

func inBool(it *Interp, fr *frame, cc *ssa.CallCommon, a []Value) Value {
	name := it.strArg(a[0])
	if it.Concrete != nil {
		return it.St.Bool(it.Concrete[name] != 0)
	}
	return it.St.Var(name, BoolSort)
}

func (it *Interp) symCells(name string, n int) []*Term {
	cells := make([]*Term, n)
	for i := range cells {
		cells[i] = it.symVar(fmt.Sprintf("%s[%d]", name, i), 8)
	}
	return cells
}

func inBytes(it *Interp, fr *frame, cc *ssa.CallCommon, a []Value) Value {
	name := it.strArg(a[0])
	n := it.intArg(a[1])
	s := it.newByteSlice(it.symCells(name, n))
	s.Obj.Tag = "input"
	return s
}

func inString(it *Interp, fr *frame, cc *ssa.CallCommon, a []Value) Value {
	name := it.strArg(a[0])
	n := it.intArg(a[1])
	return it.newStr(it.symCells(name, n))
}

func inStringUpTo(it *Interp, fr *frame, cc *ssa.CallCommon, a []Value) Value {
	name := it.strArg(a[0])
	n := it.intArg(a[1])
	s := it.newStr(it.symCells(name, n))
	ln := it.symVar(name+".len", 64)
	if it.Concrete != nil {
		if ln.Val > uint64(n) {
			ln = it.c64(int64(n))
		}
	} else {
		it.assume(it.St.Ule(ln, it.c64(int64(n))))
	}
	s.Len = ln
	return s
}

func inParam(it *Interp, fr *frame, cc *ssa.CallCommon, a []Value) Value {
	name := it.strArg(a[0])
	v, ok := it.Params[name]
	if !ok {
		panic(pathEnd{"abort", "missing job parameter " + name})
	}
	return it.c64(int64(v))
}

func inKnown(it *Interp, fr *frame, cc *ssa.CallCommon, a []Value) Value {
	it.path.excuses = append(it.path.excuses, Excuse{ID: it.strArg(a[0]), Pattern: it.strArg(a[1]), Cond: a[2].(*Term)})
	return nil
}

func inBudget(it *Interp, fr *frame, cc *ssa.CallCommon, a []Value) Value {
	n := it.intArg(a[0])
	// budget counts from here
	it.MaxSteps = it.steps + n
	it.path.budgetViol = a[1].(*Term).IsTrue()
	return nil
}

func inHavoc(it *Interp, fr *frame, cc *ssa.CallCommon, a []Value) Value {
	s := a[0].(*Slice)
	if s.Obj == nil {
		return nil
	}
	it.freshN["havoc"]++
	k := it.freshN["havoc"]
	off := int(it.concretize(s.Off))
	n := int(it.concretize(s.Cap))
	for i := 0; i < n; i++ {
		it.setCell(s.Obj, off+i, it.symVar(fmt.Sprintf("havoc%d[%d]", k, i), 8))
	}
	return nil
}

func inNoNUL(it *Interp, fr *frame, cc *ssa.CallCommon, a []Value) Value {
	v := it.viewOf(a[0])
	r := it.St.T
	for k := 0; k < v.max; k++ {
		c := it.St.Ne(it.cellAtI(v, k), it.St.Const(8, 0))
		if !v.ln.IsConst() {
			c = it.St.Or(it.St.Ule(v.ln, it.c64(int64(k))), c)
		}
		r = it.St.And(r, c)
	}
	return r
}

// vAllInRange(b []byte|string, lo, hi byte) bool
func inAllInRange(it *Interp, fr *frame, cc *ssa.CallCommon, a []Value) Value {
	v := it.viewOf(a[0])
	lo, hi := a[1].(*Term), a[2].(*Term)
	r := it.St.T
	for k := 0; k < v.max; k++ {
		b := it.cellAtI(v, k)
		c := it.St.And(it.St.Ule(lo, b), it.St.Ule(b, hi))
		if !v.ln.IsConst() {
			c = it.St.Or(it.St.Ule(v.ln, it.c64(int64(k))), c)
		}
		r = it.St.And(r, c)
	}
	return r
}

func inAnyZero(it *Interp, fr *frame, cc *ssa.CallCommon, a []Value) Value {
	v := it.viewOf(a[0])
	r := it.St.F
	for k := 0; k < v.max; k++ {
		c := it.St.Eq(it.cellAtI(v, k), it.St.Const(8, 0))
		if !v.ln.IsConst() {
			c = it.St.And(it.St.Ult(it.c64(int64(k)), v.ln), c)
		}
		r = it.St.Or(r, c)
	}
	return r
}

// vSameBacking(a, b []byte) bool: do the two slices share a backing array (engine: same object).
func inSameBacking(it *Interp, fr *frame, cc *ssa.CallCommon, a []Value) Value {
	x, y := a[0].(*Slice), a[1].(*Slice)
	return it.St.Bool(x.Obj != nil && x.Obj == y.Obj)
}

func inCountTrue(it *Interp, fr *frame, cc *ssa.CallCommon, a []Value) Value {
	s := a[0].(*Slice)
	n := int(it.concretize(s.Len))
	r := it.c64(0)
	for i := 0; i < n; i++ {
		b := it.loadCell(s.Obj, it.St.Add(s.Off, it.c64(int64(i)))).(*Term)
		r = it.St.Add(r, it.St.Ite(b, it.c64(1), it.c64(0)))
	}
	return r
}

// ---------------------------------------------------------------------------
// observations (translator validation)

func (it *Interp) fmtObserved(v Value, t types.Type) string {
	switch x := v.(type) {
	case *Term:
		if !x.IsConst() {
			return "<symbolic>"
		}
		if x.S.K == SBool {
			if x.Val == 1 {
				return "true"
			}
			return "false"
		}
		if x.S.K == SFP {
			return fmt.Sprintf("f:%016x", x.Val)
		}
		if t != nil && isSigned(t) {
			return fmt.Sprintf("%d", x.Int())
		}
		return fmt.Sprintf("%d", x.Val)
	case *Str:
		s, ok := it.concreteStr(x)
		if !ok {
			return "<symbolic>"
		}
		return "s:" + hex.EncodeToString([]byte(s))
	case *Slice:
		if x.Obj == nil {
			if st, ok := under(t).(*types.Slice); ok {
				if b, ok := under(st.Elem()).(*types.Basic); ok && b.Kind() == types.Uint8 {
					return "b:"
				}
			}
			return "[]"
		}
		n := int(it.concretize(x.Len))
		var et types.Type
		if st, ok := under(t).(*types.Slice); ok {
			et = st.Elem()
		}
		if b, ok := under(et).(*types.Basic); ok && b.Kind() == types.Uint8 {
			bs := make([]byte, n)
			for i := 0; i < n; i++ {
				c := it.loadCell(x.Obj, it.St.Add(x.Off, it.c64(int64(i)))).(*Term)
				if !c.IsConst() {
					return "<symbolic>"
				}
				bs[i] = byte(c.Val)
			}
			return "b:" + hex.EncodeToString(bs)
		}
		parts := make([]string, n)
		for i := 0; i < n; i++ {
			p := &Ptr{Obj: x.Obj, Off: it.St.Add(x.Off, it.c64(int64(i*x.ECells)))}
			parts[i] = it.fmtObserved(it.load(p, et), et)
		}
		return "[" + strings.Join(parts, ",") + "]"
	case *Iface:
		if x.T == nil {
			return "nil"
		}
		return it.fmtObserved(x.V, x.T)
	case *Ptr:
		if x.Obj == nil {
			return "nil"
		}
		return "ptr"
	}
	return fmt.Sprintf("<%T>", v)
}

func inObserve(it *Interp, fr *frame, cc *ssa.CallCommon, a []Value) Value {
	if it.Concrete == nil {
		return nil
	}
	name := it.strArg(a[0])
	iv := a[1].(*Iface)
	var s string
	if iv.T == nil {
		s = "nil"
	} else {
		s = it.fmtObserved(iv.V, iv.T)
	}
	it.path.Observes = append(it.path.Observes, Observation{Name: name, Val: s})
	return nil
}

func inObserveErr(it *Interp, fr *frame, cc *ssa.CallCommon, a []Value) Value {
	if it.Concrete == nil {
		return nil
	}
	name := it.strArg(a[0])
	iv := a[1].(*Iface)
	s := "err"
	if iv.T == nil {
		s = "nil"
	}
	it.path.Observes = append(it.path.Observes, Observation{Name: name, Val: s})
	return nil
}

func (it *Interp) lookupStub(fn *ssa.Function) (StubFn, bool) {
	if fn.Pkg != nil && len(fn.Name()) > 1 && fn.Name()[0] == 'v' && fn.Signature.Recv() == nil {
		if in, ok := intrinsics[fn.Name()]; ok && strings.HasPrefix(fn.Pkg.Pkg.Path(), repoModule) {
			return in, true
		}
	}
	if s, ok := it.stubs[fn.String()]; ok {
		return s, true
	}
	if fn.Origin() != nil {
		if s, ok := it.stubs[fn.Origin().String()]; ok {
			return s, true
		}
	}
	if fn.Pkg != nil {
		if s, ok := it.stubs[fn.Pkg.Pkg.Path()+".*"]; ok {
			return s, true
		}
	} else if fn.Signature.Recv() != nil {
		// methods of instantiated or synthetic wrappers
	}
	return nil, false
}

// vPad(s string, w int) []byte: s followed by NULs up to w octets (s may have symbolic length).
func inPad(it *Interp, fr *frame, cc *ssa.CallCommon, a []Value) Value {
	v := it.viewOf(a[0])
	w := it.intArg(a[1])
	cells := make([]*Term, w)
	z := it.St.Const(8, 0)
	for k := 0; k < w; k++ {
		if k >= v.max {
			cells[k] = z
			continue
		}
		c := it.cellAtI(v, k)
		if !v.ln.IsConst() {
			c = it.St.Ite(it.St.Ult(it.c64(int64(k)), v.ln), c, z)
		} else if uint64(k) >= v.ln.Val {
			c = z
		}
		cells[k] = c
	}
	return it.newByteSlice(cells)
}

func inIdx(it *Interp, fr *frame, cc *ssa.CallCommon, a []Value) Value {
	return it.constStr(fmt.Sprintf("%s[%d]", it.strArg(a[0]), it.intArg(a[1])))
}

// vGSM7Text(septets []byte) string: a text whose GSM 7-bit encoding is exactly `septets`
// (contract stub for the text -> septet step; natively the text is Decode(septets)). The
// contract - Decode inverts Encode on valid streams - is proved by the C08 jobs.
func inGSM7Text(it *Interp, fr *frame, cc *ssa.CallCommon, a []Value) Value {
	v := it.viewOf(a[0])
	o := it.copyView(v)
	if it.gsm7Text == nil {
		it.gsm7Text = map[*Object]view{}
	}
	it.gsm7Text[o] = view{obj: o, off: it.c64(0), ln: v.ln, max: v.max}
	return &Str{Obj: o, Off: it.c64(0), Len: v.ln}
}
