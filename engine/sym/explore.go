package sym

import (
	"fmt"
	"go/types"
	"path"
	"sort"
	"strings"
	"time"

	"golang.org/x/tools/go/ssa"
)

type decision struct {
	val  int
	alts []int
	aux  uint64
	list []uint64
}

type Excuse struct {
	ID      string
	Cond    *Term
	Pattern string
}

type Observation struct {
	Name string
	Val  string
}

type PathResult struct {
	Outcome      string
	Msg          string
	Reached      []string
	Observes     []Observation
	Notes        []string
	Truncated    bool
	GlobalWrites []string
	MonitorHits  []string
	excuses      []Excuse
	budgetViol   bool
}

type Violation struct {
	Label string
	Msg   string
	Model map[string]uint64
	Path  int
}

type KFHit struct {
	ID    string
	Label string
	Model map[string]uint64
	Count int
}

type JobState struct {
	Name          string
	Harness       string
	Params        map[string]int
	Violations    []Violation
	KFHits        map[string]*KFHit
	Obligations   int
	Discharged    int
	Inconclusive  []string
	Paths         int
	Outcomes      map[string]int
	Reached       map[string]int
	Witness       map[string]uint64
	WitnessObs    []Observation
	NotEnc        []string
	Notes         map[string]int
	GlobalWrites  map[string]int
	Instrs        int64
	Queries       int
	SolverTime    time.Duration
	Wall          time.Duration
	Funcs         map[string]bool
	violatedLabel map[string]bool
	MaxPaths      int
	Deadline      time.Time
}

func (j *JobState) note(s string) {
	if j.Notes == nil {
		j.Notes = map[string]int{}
	}
	j.Notes[s]++
}

func (j *JobState) inconclusive(s string) {
	for _, x := range j.Inconclusive {
		if x == s {
			return
		}
	}
	if len(j.Inconclusive) < 50 {
		j.Inconclusive = append(j.Inconclusive, s)
	}
}

// ---------------------------------------------------------------------------
// solver helpers

func (it *Interp) check(extra ...*Term) Result {
	as := make([]*Term, 0, len(it.pc)+len(extra))
	as = append(as, it.pc...)
	as = append(as, extra...)
	r, _ := it.Sol.Check(as, nil)
	return r
}

func (it *Interp) feasible(c *Term) bool {
	if c.IsTrue() {
		return true
	}
	if c.IsFalse() {
		return false
	}
	switch it.check(c) {
	case Unsat:
		return false
	case Unknown:
		if it.job != nil {
			it.job.inconclusive("solver unknown on feasibility query (treated as feasible)")
		}
		return true
	}
	return true
}

func (it *Interp) modelOf(extra []*Term, eval []*Term) (Result, []uint64) {
	as := make([]*Term, 0, len(it.pc)+len(extra))
	as = append(as, it.pc...)
	as = append(as, extra...)
	return it.Sol.Check(as, eval)
}

func (it *Interp) fullModel(extra ...*Term) (Result, map[string]uint64) {
	vars := it.St.Vars
	r, vals := it.modelOf(extra, vars)
	if r != Sat {
		return r, nil
	}
	m := make(map[string]uint64, len(vars))
	for i, v := range vars {
		if i < len(vals) {
			m[v.Name] = vals[i]
		}
	}
	return r, m
}

func (it *Interp) pushPC(c *Term) {
	if c.IsTrue() {
		return
	}
	it.pc = append(it.pc, c)
	// remember x == const facts for cheap branch evaluation
	if c.Op == OEq && c.Args[1].IsConst() && !c.Args[0].IsConst() {
		if it.known == nil {
			it.known = map[*Term]*Term{}
		}
		if _, dup := it.known[c.Args[0]]; !dup {
			it.known[c.Args[0]] = c.Args[1]
			it.knownLog = append(it.knownLog, knownEntry{at: len(it.pc), t: c.Args[0]})
			it.knownVer++
		}
	}
}

type knownEntry struct {
	at int
	t  *Term
}

func (it *Interp) truncPC(n int) {
	it.pc = it.pc[:n]
	for len(it.knownLog) > 0 && it.knownLog[len(it.knownLog)-1].at > n {
		delete(it.known, it.knownLog[len(it.knownLog)-1].t)
		it.knownLog = it.knownLog[:len(it.knownLog)-1]
		it.knownVer++
	}
}

// simplifyKnown rewrites t under the x == const facts of the path condition.
func (it *Interp) simplifyKnown(t *Term) *Term {
	if len(it.known) == 0 {
		return t
	}
	if it.simpVer != it.knownVer {
		it.simpVer = it.knownVer
		it.simpCache = map[*Term]*Term{}
	}
	return it.simp(t, 0)
}

func (it *Interp) simp(t *Term, depth int) *Term {
	if t.Op == OConst {
		return t
	}
	if k, ok := it.known[t]; ok {
		return k
	}
	if t.Op == OVar || depth > 64 {
		return t
	}
	if r, ok := it.simpCache[t]; ok {
		return r
	}
	st := it.St
	args := make([]*Term, len(t.Args))
	changed := false
	for i, a := range t.Args {
		args[i] = it.simp(a, depth+1)
		if args[i] != a {
			changed = true
		}
	}
	r := t
	if changed {
		switch t.Op {
		case ONot:
			r = st.Not(args[0])
		case OAnd:
			r = st.And(args[0], args[1])
		case OOr:
			r = st.Or(args[0], args[1])
		case OIte:
			r = st.Ite(args[0], args[1], args[2])
		case OEq:
			r = st.Eq(args[0], args[1])
		case OAdd, OSub, OMul, OUDiv, OURem, OSDiv, OSRem, OBAnd, OBOr, OBXor, OShl, OLShr, OAShr:
			r = st.bin(t.Op, args[0], args[1])
		case OUlt, OUle, OSlt, OSle:
			r = st.cmp(t.Op, args[0], args[1])
		case OBNot:
			r = st.BNot(args[0])
		case ONeg:
			r = st.Neg(args[0])
		case OExtract:
			r = st.Extract(args[0], t.A, t.B)
		case OZext:
			r = st.Zext(args[0], t.S.W)
		case OSext:
			r = st.Sext(args[0], t.S.W)
		case OConcat:
			r = st.Concat(args[0], args[1])
		}
	}
	it.simpCache[t] = r
	return r
}

// inPC: is c syntactically one of the path-condition conjuncts (cheap implication test)?
func (it *Interp) inPC(c *Term) bool {
	for _, p := range it.pc {
		if p == c {
			return true
		}
		if p.Op == OAnd && (p.Args[0] == c || p.Args[1] == c) {
			return true
		}
	}
	return false
}

// ---------------------------------------------------------------------------
// forking

func (it *Interp) branchOrConst(c *Term) bool {
	if c.IsConst() {
		return c.Val == 1
	}
	return it.branch(c)
}

func (it *Interp) branch(c *Term) bool {
	if c.IsConst() {
		return c.Val == 1
	}
	if it.Concrete != nil {
		panic(fmt.Sprintf("internal: symbolic branch in concrete mode: %v in %s", c, it.curFn()))
	}
	if it.pos < len(it.trace) {
		d := it.trace[it.pos]
		it.pos++
		if d.val == 1 {
			it.pushPC(c)
			return true
		}
		it.pushPC(it.St.Not(c))
		return false
	}
	it.Stats.Branches++
	nc := it.St.Not(c)
	var tf, ff bool
	sc := it.simplifyKnown(c)
	switch {
	case sc.IsTrue():
		tf, ff = true, false
	case sc.IsFalse():
		tf, ff = false, true
	case it.inPC(c):
		tf, ff = true, false
	case it.inPC(nc):
		tf, ff = false, true
	default:
		tf = it.feasible(c)
		ff = true
		if tf {
			ff = it.feasible(nc)
		}
	}
	d := decision{}
	switch {
	case tf && ff:
		d.val = 1
		d.alts = []int{0}
	case tf:
		d.val = 1
	default:
		d.val = 0
	}
	it.trace = append(it.trace, d)
	it.pos++
	if d.val == 1 {
		it.pushPC(c)
		return true
	}
	it.pushPC(nc)
	return false
}

// choose is an n-way nondeterministic choice (all alternatives feasible).
func (it *Interp) choose(n int) int {
	if n <= 1 {
		return 0
	}
	if it.Concrete != nil {
		return 0
	}
	if it.pos < len(it.trace) {
		d := it.trace[it.pos]
		it.pos++
		return d.val
	}
	alts := make([]int, 0, n-1)
	for i := 1; i < n; i++ {
		alts = append(alts, i)
	}
	it.trace = append(it.trace, decision{val: 0, alts: alts})
	it.pos++
	return 0
}

func (it *Interp) assume(c *Term) {
	if c.IsTrue() {
		return
	}
	if c.IsFalse() {
		panic(pathEnd{"assume", "assumption false"})
	}
	if it.Concrete != nil {
		panic("internal: symbolic assume in concrete mode")
	}
	if it.pos < len(it.trace) {
		it.pos++
		it.pushPC(c)
		return
	}
	if !it.feasible(c) {
		panic(pathEnd{"assume", "assumption infeasible"})
	}
	it.trace = append(it.trace, decision{val: 1})
	it.pos++
	it.pushPC(c)
}

// concretize forks over the feasible values of t. The values are enumerated once
// (model, block, repeat) and the choice is a single n-way decision, so that each
// resulting path carries one equality instead of a chain of disequalities.
func (it *Interp) concretize(t *Term) uint64 {
	if t.IsConst() {
		return t.Val
	}
	if it.Concrete != nil {
		panic("internal: symbolic concretize in concrete mode")
	}
	if it.pos < len(it.trace) {
		d := it.trace[it.pos]
		it.pos++
		v := d.list[d.val]
		it.pushPC(it.St.Eq(t, it.St.Const(t.S.W, v)))
		return v
	}
	var vals []uint64
	var block []*Term
	complete := false
	for len(vals) < 1024 {
		r, m := it.modelOf(block, []*Term{t})
		if r == Unsat {
			complete = true
			break
		}
		if r != Sat {
			if it.job != nil {
				it.job.inconclusive("solver " + r.String() + " while concretising")
			}
			break
		}
		vals = append(vals, m[0])
		block = append(block, it.St.Ne(t, it.St.Const(t.S.W, m[0])))
	}
	if len(vals) == 0 {
		panic(pathEnd{"abort", "cannot concretise"})
	}
	if !complete && it.job != nil {
		it.job.inconclusive("concretisation truncated at 1024 values")
	}
	sort.Slice(vals, func(a, b int) bool { return vals[a] < vals[b] })
	d := decision{val: 0, list: vals}
	for i := 1; i < len(vals); i++ {
		d.alts = append(d.alts, i)
	}
	it.trace = append(it.trace, d)
	it.pos++
	it.pushPC(it.St.Eq(t, it.St.Const(t.S.W, vals[0])))
	return vals[0]
}

// tryConst returns a constant if t can take only one value under the path condition
// (two solver queries, recorded in the trace so that re-execution does not repeat them).
func (it *Interp) tryConst(t *Term) *Term {
	if t.IsConst() || it.Concrete != nil {
		return t
	}
	if it.pos < len(it.trace) {
		d := it.trace[it.pos]
		it.pos++
		if d.val == 1 {
			return it.St.Const(t.S.W, d.aux)
		}
		return t
	}
	r, vals := it.modelOf(nil, []*Term{t})
	d := decision{val: 0}
	res := t
	if r == Sat {
		v := vals[0]
		if it.check(it.St.Ne(t, it.St.Const(t.S.W, v))) == Unsat {
			d = decision{val: 1, aux: v}
			res = it.St.Const(t.S.W, v)
		}
	}
	it.trace = append(it.trace, d)
	it.pos++
	return res
}

func (it *Interp) nextPrefix() bool {
	for len(it.trace) > 0 {
		d := &it.trace[len(it.trace)-1]
		if len(d.alts) > 0 {
			d.val = d.alts[0]
			d.alts = d.alts[1:]
			return true
		}
		it.trace = it.trace[:len(it.trace)-1]
	}
	return false
}

// ---------------------------------------------------------------------------
// diamond merging

func pureInstr(ins ssa.Instruction) bool {
	switch x := ins.(type) {
	case *ssa.BinOp, *ssa.Slice, *ssa.Convert, *ssa.ChangeType, *ssa.ChangeInterface, *ssa.MakeInterface,
		*ssa.Extract, *ssa.Field, *ssa.FieldAddr, *ssa.IndexAddr, *ssa.Index, *ssa.Lookup, *ssa.DebugRef, *ssa.Jump:
		return true
	case *ssa.UnOp:
		_ = x
		return true
	case *ssa.TypeAssert:
		return x.CommaOk
	case *ssa.Call:
		if b, ok := x.Call.Value.(*ssa.Builtin); ok {
			switch b.Name() {
			case "len", "cap", "min", "max":
				return true
			}
		}
		return false
	}
	return false
}

func pureArm(b *ssa.BasicBlock, from *ssa.BasicBlock) (*ssa.BasicBlock, bool) {
	if len(b.Preds) != 1 || b.Preds[0] != from || len(b.Succs) != 1 {
		return nil, false
	}
	if len(b.Instrs) > 24 {
		return nil, false
	}
	for _, ins := range b.Instrs {
		if !pureInstr(ins) {
			return nil, false
		}
	}
	return b.Succs[0], true
}

// tryMerge evaluates a pure triangle/diamond under guards and joins with ite.
// Returns the join block and the block to be treated as its predecessor.
func (it *Interp) tryMerge(fr *frame, block *ssa.BasicBlock, c *Term) (*ssa.BasicBlock, *ssa.BasicBlock, bool) {
	if it.Concrete != nil {
		return nil, nil, false
	}
	T, F := block.Succs[0], block.Succs[1]
	var join *ssa.BasicBlock
	var armT, armF *ssa.BasicBlock // nil when that side goes directly to the join
	if jt, ok := pureArm(T, block); ok && jt == F {
		join, armT = F, T
	} else if jf, ok := pureArm(F, block); ok && jf == T {
		join, armF = T, F
	} else if jt, ok := pureArm(T, block); ok {
		if jf, ok2 := pureArm(F, block); ok2 && jf == jt {
			join, armT, armF = jt, T, F
		}
	}
	if join == nil || join == block {
		return nil, nil, false
	}
	// word-sized integer phis are almost always cursors, lengths or counts: merging them
	// turns later slicing/allocation symbolic, forking keeps them concrete
	for _, ins := range join.Instrs {
		phi, ok := ins.(*ssa.Phi)
		if !ok {
			break
		}
		if b, ok := phi.Type().Underlying().(*types.Basic); ok {
			switch b.Kind() {
			case types.Int, types.Uint, types.Int64, types.Uint64, types.Uintptr:
				return nil, nil, false
			}
		}
	}
	// the join must receive exactly the edges we account for
	savedPC := len(it.pc)
	runArm := func(arm *ssa.BasicBlock, guard *Term) bool {
		base := len(it.pc)
		it.pc = append(it.pc, guard)
		ok := true
		func() {
			defer func() {
				if r := recover(); r != nil {
					// a runtime panic inside an arm: give up merging
					if _, isGo := r.(*GoPanic); isGo {
						ok = false
						return
					}
					panic(r)
				}
			}()
			for _, ins := range arm.Instrs {
				if _, isJ := ins.(*ssa.Jump); isJ {
					break
				}
				it.steps++
				it.instr(fr, ins)
			}
		}()
		// weaken conditions added under the guard
		added := append([]*Term(nil), it.pc[base+1:]...)
		it.truncPC(base)
		for _, a := range added {
			it.pushPC(it.St.Implies(guard, a))
		}
		return ok
	}
	nc := it.St.Not(c)
	if armT != nil && !runArm(armT, c) {
		it.truncPC(savedPC)
		it.Stats.MergeFail++
		return nil, nil, false
	}
	if armF != nil && !runArm(armF, nc) {
		it.truncPC(savedPC)
		it.Stats.MergeFail++
		return nil, nil, false
	}
	predT, predF := block, block
	if armT != nil {
		predT = armT
	}
	if armF != nil {
		predF = armF
	}
	idxOf := func(p *ssa.BasicBlock) int {
		for i, q := range join.Preds {
			if q == p {
				return i
			}
		}
		return -1
	}
	iT, iF := idxOf(predT), idxOf(predF)
	if iT < 0 || iF < 0 {
		it.truncPC(savedPC)
		return nil, nil, false
	}
	var vals []Value
	var phis []*ssa.Phi
	for _, ins := range join.Instrs {
		phi, ok := ins.(*ssa.Phi)
		if !ok {
			break
		}
		v, ok := it.iteValue(c, it.get(fr, phi.Edges[iT]), it.get(fr, phi.Edges[iF]))
		if !ok {
			it.truncPC(savedPC)
			it.Stats.MergeFail++
			return nil, nil, false
		}
		phis = append(phis, phi)
		vals = append(vals, v)
	}
	for i, p := range phis {
		fr.regs[p] = vals[i]
	}
	it.Stats.Merges++
	// continue at the join, skipping its phis: exec() handles phis only when prev != nil,
	// so we hand back a marker predecessor of nil and pre-set the registers.
	return join, nil, true
}

// ---------------------------------------------------------------------------
// obligations

func matchLabel(pattern, label string) bool {
	if pattern == "" || pattern == "*" {
		return true
	}
	ok, _ := path.Match(pattern, label)
	if ok {
		return true
	}
	return strings.HasPrefix(label, strings.TrimSuffix(pattern, "*")) && strings.HasSuffix(pattern, "*")
}

// violation handles a failed obligation "nc is satisfiable together with pc".
func (it *Interp) violation(label, msg string, nc *Term) {
	j := it.job
	var rel []Excuse
	for _, e := range it.path.excuses {
		if matchLabel(e.Pattern, label) {
			rel = append(rel, e)
		}
	}
	extra := []*Term{}
	if nc != nil {
		extra = append(extra, nc)
	}
	if len(rel) > 0 {
		any := it.St.F
		for _, e := range rel {
			any = it.St.Or(any, e.Cond)
		}
		r, m := it.fullModel(append(extra, it.St.Not(any))...)
		switch r {
		case Sat:
			it.recordViolation(label, msg, m)
		case Unknown:
			j.inconclusive("solver unknown on obligation " + label)
		}
		for _, e := range rel {
			r, m := it.fullModel(append(extra, e.Cond)...)
			if r == Sat {
				h := j.KFHits[e.ID]
				if h == nil {
					h = &KFHit{ID: e.ID, Label: label, Model: m}
					j.KFHits[e.ID] = h
				}
				h.Count++
			}
		}
		return
	}
	r, m := it.fullModel(extra...)
	switch r {
	case Sat:
		it.recordViolation(label, msg, m)
	case Unknown:
		j.inconclusive("solver unknown on obligation " + label)
	}
}

func (it *Interp) recordViolation(label, msg string, m map[string]uint64) {
	j := it.job
	if j.violatedLabel[label] {
		return
	}
	j.violatedLabel[label] = true
	j.Violations = append(j.Violations, Violation{Label: label, Msg: msg, Model: m, Path: j.Paths})
}

// assertOb checks an obligation and continues under the assumption that it holds.
func (it *Interp) assertOb(label string, c *Term) {
	j := it.job
	if it.Concrete != nil {
		if !c.IsConst() {
			panic("internal: symbolic assert in concrete mode")
		}
		if c.Val == 0 {
			it.path.Notes = append(it.path.Notes, "assert-failed:"+label)
		}
		return
	}
	if c.IsTrue() {
		if it.pos >= len(it.trace) || true {
			// constant obligations are counted once per path; cheap
		}
		j.Obligations++
		j.Discharged++
		return
	}
	if it.pos < len(it.trace) {
		d := it.trace[it.pos]
		it.pos++
		if d.val != 2 {
			it.pushPC(c)
		}
		return
	}
	j.Obligations++
	nc := it.St.Not(c)
	// an obligation that a listed known finding excuses unconditionally does not constrain
	// the rest of the path: what comes after it is still checked
	always, hasExcuse := false, false
	for _, e := range it.path.excuses {
		if matchLabel(e.Pattern, label) {
			hasExcuse = true
			if e.Cond.IsTrue() {
				always = true
			}
		}
	}
	if c.IsFalse() {
		before := len(j.Violations)
		it.violation(label, "assertion constant false", nil)
		if always || (hasExcuse && len(j.Violations) == before) {
			j.Discharged++
			it.trace = append(it.trace, decision{val: 2})
			it.pos++
			return
		}
		panic(pathEnd{"assertfail", label})
	}
	excused := false
	switch it.check(nc) {
	case Unsat:
		j.Discharged++
	case Sat:
		before := len(j.Violations)
		it.violation(label, "assertion can fail", nc)
		if len(j.Violations) == before {
			// excused (known finding) or already reported
			j.Discharged++
			excused = hasExcuse
		}
	default:
		j.inconclusive("solver unknown on obligation " + label)
	}
	if always {
		it.trace = append(it.trace, decision{val: 2})
		it.pos++
		return
	}
	if excused && !it.feasible(c) {
		// it always fails here and every failure is a listed known finding: go on unconstrained
		it.trace = append(it.trace, decision{val: 2})
		it.pos++
		return
	}
	if !it.feasible(c) {
		it.trace = append(it.trace, decision{val: 1})
		it.pos++
		panic(pathEnd{"assertfail", label})
	}
	it.trace = append(it.trace, decision{val: 1})
	it.pos++
	it.pushPC(c)
}

// allocCheck is the C03 over-allocation obligation at make() sites.
func (it *Interp) allocCheck(n *Term, ecells int) {
	lim, ok := it.Params["__alloc_limit"]
	if !ok {
		return
	}
	if n.IsConst() {
		if int(n.Val) > lim {
			it.violation("alloc", fmt.Sprintf("allocation of %d elements exceeds %d", n.Val, lim), nil)
		}
		return
	}
	okc := it.St.Ule(n, it.c64(int64(lim)))
	it.assertObNoAssume("alloc", okc)
	// the over-allocation (if any) is recorded; keep exploring only the sizes within the limit
	it.assume(okc)
}

// assertObNoAssume checks an obligation without constraining the rest of the path.
func (it *Interp) assertObNoAssume(label string, c *Term) {
	j := it.job
	if it.Concrete != nil || c.IsTrue() {
		return
	}
	if it.pos < len(it.trace) {
		it.pos++
		return
	}
	j.Obligations++
	switch it.check(it.St.Not(c)) {
	case Unsat:
		j.Discharged++
	case Sat:
		before := len(j.Violations)
		it.violation(label, "obligation can fail", it.St.Not(c))
		if len(j.Violations) == before {
			j.Discharged++
		}
	default:
		j.inconclusive("solver unknown on obligation " + label)
	}
	it.trace = append(it.trace, decision{val: 1})
	it.pos++
}

// ---------------------------------------------------------------------------
// running a job

type JobOpts struct {
	MaxPaths int
	MaxSteps int
	Timeout  time.Duration
}

func (it *Interp) beginPath() {
	it.truncPC(0)
	it.pos = 0
	it.steps = 0
	it.frames = 0
	it.panicking = nil
	it.freshN = map[string]int{}
	it.path = &PathResult{}
	it.journalOn = true
	it.pool = nil
	it.timeFmtN = 0
	it.egQueue = map[*Object][]*Func{}
	it.md5Apps = nil
	it.md5Acc = nil
	it.atoiMap = nil
	it.gsm7Text = nil
	it.fpInt = nil
	it.fpDiv = nil
	it.fpLazy = nil
	it.digitSum = nil
	it.poolPut = nil
	it.fmtTimeVals = nil
}

func (it *Interp) runPath(fn *ssa.Function) {
	p := it.path
	defer func() {
		it.job.Instrs += int64(it.steps)
		it.Stats.Instrs += int64(it.steps)
		if r := recover(); r != nil {
			switch e := r.(type) {
			case pathEnd:
				p.Outcome = e.Kind
				p.Msg = e.Msg
			case *GoPanic:
				p.Outcome = "panic"
				p.Msg = e.Msg
			default:
				panic(r)
			}
		}
	}()
	it.Call(fn, nil, nil)
	p.Outcome = "ok"
}

// RunJob explores all paths of the harness.
func (it *Interp) RunJob(name string, fn *ssa.Function, params map[string]int, opts JobOpts) *JobState {
	j := &JobState{Name: name, Harness: fn.Name(), Params: params, KFHits: map[string]*KFHit{}, Outcomes: map[string]int{},
		Reached: map[string]int{}, violatedLabel: map[string]bool{}, GlobalWrites: map[string]int{}, Funcs: map[string]bool{}}
	it.job = j
	it.Params = map[string]int{}
	for k, v := range params {
		it.Params[k] = v
	}
	it.Monitor = params["c13"] == 1
	if it.Monitor {
		it.PoolStale = 8
		it.GoOrderAll = true
	}
	if opts.MaxPaths == 0 {
		opts.MaxPaths = 20000
	}
	if opts.MaxSteps != 0 {
		it.MaxSteps = opts.MaxSteps
	}
	t0 := time.Now()
	q0, st0 := it.Sol.Queries, it.Sol.Time
	it.trace = it.trace[:0]
	for {
		it.beginPath()
		it.runPath(fn)
		j.Paths++
		it.Stats.Paths++
		p := it.path
		j.Outcomes[p.Outcome]++
		for _, r := range p.Reached {
			j.Reached[r]++
		}
		for _, n := range p.Notes {
			j.note(n)
		}
		for _, g := range p.GlobalWrites {
			j.GlobalWrites[g]++
		}
		if p.Truncated {
			j.note("truncated-allocation")
		}
		for _, h := range p.MonitorHits {
			lab := h
			if i := strings.Index(h, ":"); i > 0 {
				lab = h[:i]
			}
			it.violation(lab, h, nil)
		}
		switch p.Outcome {
		case "assertfail":
			j.note("path-ended-at-failed-assert:" + p.Msg)
		case "panic":
			it.violation("panic", p.Msg, nil)
		case "budget":
			if p.budgetViol {
				it.violation("unwind", p.Msg, nil)
			} else {
				j.inconclusive("budget: " + p.Msg)
			}
		case "notenc":
			found := false
			for _, s := range j.NotEnc {
				if s == p.Msg {
					found = true
				}
			}
			if !found {
				j.NotEnc = append(j.NotEnc, p.Msg)
			}
		case "abort":
			j.inconclusive("abort: " + p.Msg)
		case "ok":
			if j.Witness == nil && it.Concrete == nil {
				if r, m := it.fullModel(); r == Sat {
					j.Witness = m
				}
			}
		}
		if it.Concrete != nil {
			j.WitnessObs = p.Observes
		}
		it.journalOn = false
		it.rollback()
		if it.Concrete != nil {
			break
		}
		if !it.nextPrefix() {
			break
		}
		if j.Paths >= opts.MaxPaths {
			j.inconclusive(fmt.Sprintf("path budget %d exhausted", opts.MaxPaths))
			break
		}
		if opts.Timeout > 0 && time.Since(t0) > opts.Timeout {
			j.inconclusive("job timeout")
			break
		}
		if it.Sol.defsSince > 400000 {
			it.Sol.Restart()
		}
	}
	j.Wall = time.Since(t0)
	j.Queries = it.Sol.Queries - q0
	j.SolverTime = it.Sol.Time - st0
	sort.Slice(j.Violations, func(a, b int) bool { return j.Violations[a].Label < j.Violations[b].Label })
	it.job = nil
	return j
}
