package sym

import (
	"fmt"
	"go/constant"
	"go/token"
	"go/types"
	"strings"

	"golang.org/x/tools/go/ssa"
)

// ---------------------------------------------------------------------------
// control-flow signals (Go panics used to unwind the interpreter)

// GoPanic is a panic of the interpreted program.
type GoPanic struct {
	Val Value
	Msg string
}

// pathEnd terminates the current path.
type pathEnd struct {
	Kind string // "assume", "budget", "notenc", "abort", "panic"
	Msg  string
}

type deferred struct {
	fn   *Func
	args []Value
	// invoke-mode
	method *types.Func
	recv   Value
}

type frame struct {
	fn      *ssa.Function
	regs    map[ssa.Value]Value
	defers  []deferred
	panic   *GoPanic
	inDefer bool
	caller  *frame
}

type undo struct {
	obj *Object
	idx int
	old Value
	fn  func()
}

type StubFn func(it *Interp, fr *frame, call *ssa.CallCommon, args []Value) Value

// Interp is one symbolic interpreter instance (one worker).
type Interp struct {
	Prog  *ssa.Program
	St    *Store
	Sol   *Solver
	Sizes types.Sizes

	globals   map[*ssa.Global]*Object
	nextObj   int
	journal   []undo
	journalOn bool

	stubs map[string]StubFn

	// per-path state
	pc        []*Term
	trace     []decision
	pos       int
	steps     int
	MaxSteps  int
	frames    int
	panicking []*frame
	freshN    map[string]int
	blockHits map[*ssa.BasicBlock]int

	// configuration
	AllocLimit   int  // max cells for symbolically sized objects
	MapOrderAll  bool // explore all map iteration orders
	PoolStale    int  // >0: pooled byte buffers carry this many stale symbolic cells
	GoOrderAll   bool
	Monitor bool // C13: flag stores to package-level state, use of released pooled buffers, overlapping goroutine write sets
	closureWrites map[*Object]bool
	closureBase   int
	ConcretizeAlloc bool // fork on small symbolic []byte allocation sizes (decoders of untrusted input)
	Concrete     map[string]uint64 // when non-nil: symbolic inputs take these concrete values (translator validation)
	Params       map[string]int

	path *PathResult // outcome collector of current path
	job  *JobState

	initDone map[*ssa.Package]bool
	noInit   map[string]bool
	Stats    Stats
	curFrame *frame
	Debug    bool
	errTypes map[string]types.Type
	pool     []Value
	timeFmtN int
	FPContracts bool
	fpInt    map[*Term]*Term
	fpDiv    map[*Term]map[uint64]*Term
	fpLazy   map[*Term]*Term
	digitSum map[*Term]*Term
	poolPut  map[*Object]bool
	gsm7Text map[*Object]view
	atoiMap  map[*Term][]*Term
	fmtTimeVals map[*Object]*Term
	md5Keys  map[string]int
	md5Apps  []md5App
	md5Acc   map[*Object][]*Term
	known    map[*Term]*Term
	knownLog []knownEntry
	knownVer int
	simpVer  int
	simpCache map[*Term]*Term
	egQueue  map[*Object][]*Func
}

type Stats struct {
	Paths     int
	Instrs    int64
	Branches  int
	Merges    int
	MergeFail int
}

func NewInterp(prog *ssa.Program, st *Store, sol *Solver) *Interp {
	it := &Interp{
		Prog: prog, St: st, Sol: sol,
		Sizes:      types.SizesFor("gc", "amd64"),
		globals:    map[*ssa.Global]*Object{},
		stubs:      map[string]StubFn{},
		MaxSteps:   2000000,
		AllocLimit: 4096,
		initDone:   map[*ssa.Package]bool{},
		Params:     map[string]int{},
	}
	registerStubs(it)
	return it
}

// ---------------------------------------------------------------------------
// types and layout

func under(t types.Type) types.Type { return t.Underlying() }

func isAggT(t types.Type) bool {
	switch under(t).(type) {
	case *types.Struct, *types.Array:
		return true
	}
	return false
}

func (it *Interp) ncells(t types.Type) int {
	switch u := under(t).(type) {
	case *types.Struct:
		n := 0
		for i := 0; i < u.NumFields(); i++ {
			n += it.ncells(u.Field(i).Type())
		}
		return n
	case *types.Array:
		return int(u.Len()) * it.ncells(u.Elem())
	case *types.Tuple:
		panic("ncells of tuple")
	}
	return 1
}

func (it *Interp) fieldOff(st *types.Struct, idx int) int {
	n := 0
	for i := 0; i < idx; i++ {
		n += it.ncells(st.Field(i).Type())
	}
	return n
}

func (it *Interp) sortOf(t types.Type) Sort {
	switch u := under(t).(type) {
	case *types.Basic:
		switch u.Kind() {
		case types.Bool, types.UntypedBool:
			return BoolSort
		case types.Int8, types.Uint8:
			return BV(8)
		case types.Int16, types.Uint16:
			return BV(16)
		case types.Int32, types.Uint32, types.UntypedRune:
			return BV(32)
		case types.Int64, types.Uint64, types.Int, types.Uint, types.Uintptr, types.UntypedInt:
			return BV(64)
		case types.Float64, types.Float32, types.UntypedFloat:
			return FPSort
		case types.UnsafePointer:
			return BV(64)
		}
	}
	panic(pathEnd{"notenc", fmt.Sprintf("no scalar sort for type %v", t)})
}

func isSigned(t types.Type) bool {
	if b, ok := under(t).(*types.Basic); ok {
		return b.Info()&types.IsUnsigned == 0 && b.Info()&types.IsInteger != 0
	}
	return false
}

func isInteger(t types.Type) bool {
	if b, ok := under(t).(*types.Basic); ok {
		return b.Info()&types.IsInteger != 0
	}
	return false
}

func isFloat(t types.Type) bool {
	if b, ok := under(t).(*types.Basic); ok {
		return b.Info()&types.IsFloat != 0
	}
	return false
}

func isString(t types.Type) bool {
	if b, ok := under(t).(*types.Basic); ok {
		return b.Info()&types.IsString != 0
	}
	return false
}

func isBoolT(t types.Type) bool {
	if b, ok := under(t).(*types.Basic); ok {
		return b.Info()&types.IsBoolean != 0
	}
	return false
}

// zeroLeaf returns the zero value of a non-aggregate type.
func (it *Interp) zeroLeaf(t types.Type) Value {
	switch u := under(t).(type) {
	case *types.Basic:
		if u.Info()&types.IsString != 0 {
			return it.constStr("")
		}
		if u.Kind() == types.UnsafePointer {
			return &Ptr{}
		}
		if u.Kind() == types.UntypedNil {
			return &Ptr{}
		}
		so := it.sortOf(t)
		switch so.K {
		case SBool:
			return it.St.F
		case SBV:
			return it.St.Const(so.W, 0)
		default:
			return it.St.FConst(0)
		}
	case *types.Pointer:
		return &Ptr{}
	case *types.Slice:
		z := it.St.Const(64, 0)
		return &Slice{Off: z, Len: z, Cap: z, ECells: it.ncells(u.Elem())}
	case *types.Map:
		return &MapV{}
	case *types.Interface:
		return &Iface{}
	case *types.Signature:
		return &Func{}
	case *types.Chan:
		return &Ptr{}
	case *types.TypeParam:
		panic(pathEnd{"notenc", "type parameter in executed code"})
	}
	panic(pathEnd{"notenc", fmt.Sprintf("zero of %v", t)})
}

func (it *Interp) appendZero(t types.Type, out []Value) []Value {
	switch u := under(t).(type) {
	case *types.Struct:
		for i := 0; i < u.NumFields(); i++ {
			out = it.appendZero(u.Field(i).Type(), out)
		}
		return out
	case *types.Array:
		n := int(u.Len())
		if n == 0 {
			return out
		}
		if !isAggT(u.Elem()) {
			z := it.zeroLeaf(u.Elem())
			for i := 0; i < n; i++ {
				out = append(out, z)
			}
			return out
		}
		for i := 0; i < n; i++ {
			out = it.appendZero(u.Elem(), out)
		}
		return out
	}
	return append(out, it.zeroLeaf(t))
}

func (it *Interp) zero(t types.Type) Value {
	if isAggT(t) {
		return &Agg{Cells: it.appendZero(t, nil)}
	}
	if tup, ok := t.(*types.Tuple); ok {
		r := make(Tuple, tup.Len())
		for i := range r {
			r[i] = it.zero(tup.At(i).Type())
		}
		return r
	}
	return it.zeroLeaf(t)
}

// ---------------------------------------------------------------------------
// objects, journal

func (it *Interp) newObject(n int, tag string) *Object {
	it.nextObj++
	o := &Object{ID: it.nextObj, Cells: make([]Value, n), Tag: tag}
	if !it.journalOn {
		o.Global = true
	}
	return o
}

func (it *Interp) newZeroObject(t types.Type, count int, tag string) *Object {
	ec := it.ncells(t)
	it.steps += ec * count / 16 // large allocations count towards the instruction budget
	o := it.newObject(ec*count, tag)
	if ec*count == 0 {
		return o
	}
	if !isAggT(t) {
		z := it.zeroLeaf(t)
		for i := range o.Cells {
			o.Cells[i] = z
		}
		return o
	}
	one := it.appendZero(t, nil)
	for i := 0; i < count; i++ {
		copy(o.Cells[i*ec:], one)
	}
	return o
}

func (it *Interp) setCell(o *Object, i int, v Value) {
	if it.Monitor && it.journalOn && it.path != nil {
		if o.Tag == "pool-released" {
			it.path.MonitorHits = append(it.path.MonitorHits, "C13.use-after-put: write to a released pooled buffer in "+it.curFn())
		}
		if it.closureWrites != nil && o.ID <= it.closureBase && o.ID > 0 {
			it.closureWrites[o] = true
		}
	}
	if it.journalOn {
		if o.Global {
			it.journal = append(it.journal, undo{obj: o, idx: i, old: o.Cells[i]})
			if it.Monitor && it.path != nil {
				it.path.MonitorHits = append(it.path.MonitorHits, fmt.Sprintf("C13.shared-write: store to package-level state %s (object o%d) in %s", o.Label, o.ID, it.curFn()))
			}
		}
	}
	o.Cells[i] = v
}

func (it *Interp) curFn() string {
	if it.curFrame != nil && it.curFrame.fn != nil {
		return it.curFrame.fn.String()
	}
	return "?"
}

func (it *Interp) rollback() {
	for i := len(it.journal) - 1; i >= 0; i-- {
		u := it.journal[i]
		if u.fn != nil {
			u.fn()
		} else {
			u.obj.Cells[u.idx] = u.old
		}
	}
	it.journal = it.journal[:0]
}

func (it *Interp) global(g *ssa.Global) *Object {
	if o, ok := it.globals[g]; ok {
		return o
	}
	et := g.Type().(*types.Pointer).Elem()
	on := it.journalOn
	it.journalOn = false
	o := it.newZeroObject(et, 1, "global")
	o.Label = g.String()
	it.journalOn = on
	it.globals[g] = o
	return o
}

// ---------------------------------------------------------------------------
// constants & strings

func (it *Interp) c64(v int64) *Term { return it.St.ConstI(64, v) }

func (it *Interp) constStr(s string) *Str {
	on := it.journalOn
	o := &Object{ID: -1, Cells: make([]Value, len(s)), Tag: "const"}
	_ = on
	for i := 0; i < len(s); i++ {
		o.Cells[i] = it.St.Const(8, uint64(s[i]))
	}
	return &Str{Obj: o, Off: it.c64(0), Len: it.c64(int64(len(s)))}
}

// concreteStr returns the Go string if s is fully concrete.
func (it *Interp) concreteStr(s *Str) (string, bool) {
	if !s.Len.IsConst() || !s.Off.IsConst() {
		return "", false
	}
	n := int(s.Len.Val)
	off := int(s.Off.Val)
	b := make([]byte, n)
	for i := 0; i < n; i++ {
		c, ok := s.Obj.Cells[off+i].(*Term)
		if !ok || !c.IsConst() {
			return "", false
		}
		b[i] = byte(c.Val)
	}
	return string(b), true
}

func (it *Interp) constValue(c *ssa.Const) Value {
	t := c.Type()
	if c.Value == nil {
		return it.zero(t)
	}
	if isAggT(t) {
		return it.zero(t)
	}
	switch u := under(t).(type) {
	case *types.Basic:
		switch {
		case u.Info()&types.IsBoolean != 0:
			return it.St.Bool(constant.BoolVal(c.Value))
		case u.Info()&types.IsString != 0:
			return it.constStr(constant.StringVal(c.Value))
		case u.Info()&types.IsInteger != 0:
			so := it.sortOf(t)
			if u.Info()&types.IsUnsigned != 0 {
				v, _ := constant.Uint64Val(constant.ToInt(c.Value))
				return it.St.Const(so.W, v)
			}
			v, ok := constant.Int64Val(constant.ToInt(c.Value))
			if !ok {
				uv, _ := constant.Uint64Val(constant.ToInt(c.Value))
				v = int64(uv)
			}
			return it.St.ConstI(so.W, v)
		case u.Info()&types.IsFloat != 0:
			f, _ := constant.Float64Val(c.Value)
			return it.St.FConst(fbits(f))
		}
	case *types.Interface, *types.Pointer, *types.Slice, *types.Map, *types.Signature:
		return it.zero(t)
	}
	panic(pathEnd{"notenc", fmt.Sprintf("constant %v of type %v", c, t)})
}

// ---------------------------------------------------------------------------
// registers

func (it *Interp) get(fr *frame, v ssa.Value) Value {
	switch x := v.(type) {
	case *ssa.Const:
		return it.constValue(x)
	case *ssa.Function:
		return &Func{Fn: x}
	case *ssa.Global:
		return &Ptr{Obj: it.global(x), Off: it.c64(0)}
	case *ssa.Builtin:
		return &Func{Builtin: x}
	}
	r, ok := fr.regs[v]
	if !ok {
		panic(fmt.Sprintf("internal: register %s (%T) unset in %s", v.Name(), v, fr.fn))
	}
	return r
}

func (it *Interp) term(fr *frame, v ssa.Value) *Term {
	x := it.get(fr, v)
	t, ok := x.(*Term)
	if !ok {
		panic(fmt.Sprintf("internal: expected scalar for %s in %s, got %s", v.Name(), fr.fn, describe(x)))
	}
	return t
}

// ---------------------------------------------------------------------------
// memory access

func (it *Interp) throw(msg string) {
	panic(&GoPanic{Msg: msg, Val: &Iface{T: types.Typ[types.String], V: it.constStr("runtime error: " + msg)}})
}

// require forks on a runtime-check condition: the failing side panics.
func (it *Interp) require(ok *Term, msg string) {
	if ok.IsTrue() {
		return
	}
	if ok.IsFalse() {
		it.throw(msg)
	}
	if !it.branch(ok) {
		it.throw(msg)
	}
}

// candidates returns the concrete cell offsets a (possibly symbolic) offset may take.
func (it *Interp) candidates(o *Object, off *Term, ncells int) []int {
	lo, hi := it.St.rangeOf(off)
	maxOff := len(o.Cells) - ncells
	if maxOff < 0 {
		return nil
	}
	l := 0
	if lo > 0 && lo <= uint64(maxOff) {
		l = int(lo)
	} else if lo > uint64(maxOff) {
		// signed-negative or beyond: fall back to all
		l = 0
	}
	h := maxOff
	if hi < uint64(maxOff) && hi >= lo {
		h = int(hi)
	}
	r := make([]int, 0, h-l+1)
	for i := l; i <= h; i++ {
		r = append(r, i)
	}
	return r
}

// loadCell reads one leaf cell at a possibly symbolic offset.
func (it *Interp) loadCell(o *Object, off *Term) Value {
	if it.Monitor && o.Tag == "pool-released" && it.path != nil && it.journalOn {
		it.path.MonitorHits = append(it.path.MonitorHits, "C13.use-after-put: read of a released pooled buffer in "+it.curFn())
	}
	if off.IsConst() {
		i := int(off.Val)
		if i < 0 || i >= len(o.Cells) {
			panic(fmt.Sprintf("internal: cell load out of range %d/%d (obj %d %s) in %s", i, len(o.Cells), o.ID, o.Tag, it.curFn()))
		}
		return o.Cells[i]
	}
	cands := it.candidates(o, off, 1)
	if len(cands) == 0 {
		panic(pathEnd{"abort", "symbolic load from empty object"})
	}
	var res Value = o.Cells[cands[len(cands)-1]]
	for k := len(cands) - 2; k >= 0; k-- {
		c := cands[k]
		cond := it.St.Eq(off, it.c64(int64(c)))
		nv, ok := it.iteValue(cond, o.Cells[c], res)
		if !ok {
			// cannot merge: concretise the offset
			v := it.concretize(off)
			return o.Cells[int(v)]
		}
		res = nv
	}
	return res
}

func (it *Interp) storeCell(o *Object, off *Term, v Value, cond *Term) {
	if off.IsConst() {
		i := int(off.Val)
		if i < 0 || i >= len(o.Cells) {
			panic(fmt.Sprintf("internal: cell store out of range %d/%d in %s", i, len(o.Cells), it.curFn()))
		}
		if cond == nil || cond.IsTrue() {
			it.setCell(o, i, v)
			return
		}
		nv, ok := it.iteValue(cond, v, o.Cells[i])
		if !ok {
			panic(pathEnd{"notenc", "conditional store of unmergeable value"})
		}
		it.setCell(o, i, nv)
		return
	}
	cands := it.candidates(o, off, 1)
	for _, c := range cands {
		cc := it.St.Eq(off, it.c64(int64(c)))
		if cond != nil {
			cc = it.St.And(cond, cc)
		}
		if cc.IsFalse() {
			continue
		}
		nv, ok := it.iteValue(cc, v, o.Cells[c])
		if !ok {
			cv := it.concretize(off)
			it.storeCell(o, it.c64(int64(cv)), v, cond)
			return
		}
		it.setCell(o, c, nv)
	}
}

func (it *Interp) load(p *Ptr, t types.Type) Value {
	if p.Obj == nil {
		it.throw("invalid memory address or nil pointer dereference")
	}
	if !isAggT(t) {
		return it.loadCell(p.Obj, p.Off)
	}
	n := it.ncells(t)
	a := &Agg{Cells: make([]Value, n)}
	if p.Off.IsConst() {
		copy(a.Cells, p.Obj.Cells[int(p.Off.Val):int(p.Off.Val)+n])
		return a
	}
	for i := 0; i < n; i++ {
		a.Cells[i] = it.loadCell(p.Obj, it.St.Add(p.Off, it.c64(int64(i))))
	}
	return a
}

func (it *Interp) store(p *Ptr, v Value, t types.Type) {
	if p.Obj == nil {
		it.throw("invalid memory address or nil pointer dereference")
	}
	if a, ok := v.(*Agg); ok {
		for i, c := range a.Cells {
			it.storeCell(p.Obj, it.St.Add(p.Off, it.c64(int64(i))), c, nil)
		}
		return
	}
	it.storeCell(p.Obj, p.Off, v, nil)
}

// ---------------------------------------------------------------------------
// value merging

func (it *Interp) iteValue(c *Term, a, b Value) (Value, bool) {
	if c.IsTrue() {
		return a, true
	}
	if c.IsFalse() {
		return b, true
	}
	if a == b {
		return a, true
	}
	switch x := a.(type) {
	case *Term:
		y, ok := b.(*Term)
		if !ok || x.S != y.S {
			return nil, false
		}
		return it.St.Ite(c, x, y), true
	case *Slice:
		y, ok := b.(*Slice)
		if !ok || x.Obj != y.Obj || x.ECells != y.ECells {
			return nil, false
		}
		return &Slice{Obj: x.Obj, Off: it.St.Ite(c, x.Off, y.Off), Len: it.St.Ite(c, x.Len, y.Len), Cap: it.St.Ite(c, x.Cap, y.Cap), ECells: x.ECells}, true
	case *Str:
		y, ok := b.(*Str)
		if !ok {
			return nil, false
		}
		if x.Obj == y.Obj {
			return &Str{Obj: x.Obj, Off: it.St.Ite(c, x.Off, y.Off), Len: it.St.Ite(c, x.Len, y.Len)}, true
		}
		// strings are immutable: build a merged copy
		nx, ny := it.strCap(x), it.strCap(y)
		n := nx
		if ny > n {
			n = ny
		}
		if n > 4096 {
			return nil, false
		}
		o := it.newObject(n, "")
		z := it.St.Const(8, 0)
		for k := 0; k < n; k++ {
			var cx, cy Value = z, z
			if k < nx {
				cx = it.loadCell(x.Obj, it.St.Add(x.Off, it.c64(int64(k))))
			}
			if k < ny {
				cy = it.loadCell(y.Obj, it.St.Add(y.Off, it.c64(int64(k))))
			}
			o.Cells[k] = it.St.Ite(c, cx.(*Term), cy.(*Term))
		}
		return &Str{Obj: o, Off: it.c64(0), Len: it.St.Ite(c, x.Len, y.Len)}, true
	case *Ptr:
		y, ok := b.(*Ptr)
		if !ok || x.Obj != y.Obj {
			return nil, false
		}
		if x.Obj == nil {
			return x, true
		}
		return &Ptr{Obj: x.Obj, Off: it.St.Ite(c, x.Off, y.Off)}, true
	case *Agg:
		y, ok := b.(*Agg)
		if !ok || len(x.Cells) != len(y.Cells) {
			return nil, false
		}
		r := &Agg{Cells: make([]Value, len(x.Cells))}
		for i := range x.Cells {
			v, ok := it.iteValue(c, x.Cells[i], y.Cells[i])
			if !ok {
				return nil, false
			}
			r.Cells[i] = v
		}
		return r, true
	case *Iface:
		y, ok := b.(*Iface)
		if !ok {
			return nil, false
		}
		if x.T == nil && y.T == nil {
			return x, true
		}
		if x.T == nil || y.T == nil || !types.Identical(x.T, y.T) {
			return nil, false
		}
		v, ok := it.iteValue(c, x.V, y.V)
		if !ok {
			return nil, false
		}
		return &Iface{T: x.T, V: v}, true
	case Tuple:
		y, ok := b.(Tuple)
		if !ok || len(x) != len(y) {
			return nil, false
		}
		r := make(Tuple, len(x))
		for i := range x {
			v, ok := it.iteValue(c, x[i], y[i])
			if !ok {
				return nil, false
			}
			r[i] = v
		}
		return r, true
	case *MapV:
		y, ok := b.(*MapV)
		if ok && x.M == y.M {
			return x, true
		}
		return nil, false
	case *Func:
		y, ok := b.(*Func)
		if ok && x.Fn == y.Fn && x.Builtin == y.Builtin && len(x.Free) == 0 && len(y.Free) == 0 && x.Native == nil && y.Native == nil {
			return x, true
		}
		return nil, false
	}
	return nil, false
}

// strCap: number of cells available from the string's offset (upper bound of its length).
func (it *Interp) strCap(s *Str) int {
	if s.Len.IsConst() {
		return int(s.Len.Val)
	}
	n := len(s.Obj.Cells)
	if s.Off.IsConst() {
		n -= int(s.Off.Val)
	}
	_, hi := it.St.rangeOf(s.Len)
	if hi < uint64(n) {
		n = int(hi)
	}
	return n
}

func (it *Interp) sliceMaxLen(s *Slice) int {
	if s.Obj == nil {
		return 0
	}
	if s.Len.IsConst() {
		return int(s.Len.Val)
	}
	n := len(s.Obj.Cells) / maxInt(s.ECells, 1)
	if s.Off.IsConst() && s.ECells > 0 {
		n -= int(s.Off.Val) / s.ECells
	}
	_, hi := it.St.rangeOf(s.Len)
	if hi < uint64(n) {
		n = int(hi)
	}
	return n
}

func maxInt(a, b int) int {
	if a > b {
		return a
	}
	return b
}
func minInt(a, b int) int {
	if a < b {
		return a
	}
	return b
}

// ---------------------------------------------------------------------------
// calling

func (it *Interp) fnKey(fn *ssa.Function) string {
	s := fn.String()
	return s
}

// Call executes fn with args.
func (it *Interp) Call(fn *ssa.Function, args []Value, free []Value) Value {
	return it.callFunction(nil, fn, args, free, nil)
}

func (it *Interp) callFunction(caller *frame, fn *ssa.Function, args []Value, free []Value, site *ssa.CallCommon) (ret Value) {
	if stub, ok := it.lookupStub(fn); ok {
		return stub(it, caller, site, args)
	}
	return it.callBody(caller, fn, args, free, site)
}

// callBody executes fn's SSA (no stub lookup).
func (it *Interp) callBody(caller *frame, fn *ssa.Function, args []Value, free []Value, site *ssa.CallCommon) (ret Value) {
	if fn.Blocks == nil {
		panic(pathEnd{"notenc", "no body and no stub: " + fn.String()})
	}
	it.frames++
	if it.frames > 400 {
		panic(pathEnd{"budget", "call depth"})
	}
	defer func() { it.frames-- }()
	fr := &frame{fn: fn, regs: make(map[ssa.Value]Value, 16), caller: caller}
	for i, p := range fn.Params {
		fr.regs[p] = args[i]
	}
	for i, fv := range fn.FreeVars {
		fr.regs[fv] = free[i]
	}
	saved := it.curFrame
	func() {
		defer func() {
			if r := recover(); r != nil {
				if gp, ok := r.(*GoPanic); ok {
					it.curFrame = saved
					fr.panic = gp
				} else {
					panic(r)
				}
			} else {
				it.curFrame = saved
			}
		}()
		ret = it.exec(fr, fn.Blocks[0])
	}()
	if fr.panic != nil {
		it.runDefers(fr)
		if fr.panic != nil {
			panic(fr.panic)
		}
		// recovered
		if fn.Recover != nil {
			ret = it.exec(fr, fn.Recover)
		} else {
			ret = it.zeroResults(fn.Signature)
		}
	}
	return ret
}

func (it *Interp) zeroResults(sig *types.Signature) Value {
	switch sig.Results().Len() {
	case 0:
		return nil
	case 1:
		return it.zero(sig.Results().At(0).Type())
	}
	return it.zero(sig.Results())
}

func (it *Interp) runDefers(fr *frame) {
	for len(fr.defers) > 0 {
		d := fr.defers[len(fr.defers)-1]
		fr.defers = fr.defers[:len(fr.defers)-1]
		func() {
			it.panicking = append(it.panicking, fr)
			defer func() {
				it.panicking = it.panicking[:len(it.panicking)-1]
				if r := recover(); r != nil {
					if gp, ok := r.(*GoPanic); ok {
						fr.panic = gp
					} else {
						panic(r)
					}
				}
			}()
			it.callValue(fr, d.fn, d.args, nil)
		}()
	}
}

func (it *Interp) callValue(fr *frame, f *Func, args []Value, site *ssa.CallCommon) Value {
	switch {
	case f.Native != nil:
		return f.Native(it, args)
	case f.Builtin != nil:
		return it.callBuiltin(fr, f.Builtin, args, site)
	case f.Fn != nil:
		return it.callFunction(fr, f.Fn, args, f.Free, site)
	}
	it.throw("invalid memory address or nil pointer dereference (nil func)")
	return nil
}

// resolveInvoke finds the concrete method for an interface method call.
func (it *Interp) resolveInvoke(recv *Iface, m *types.Func) *ssa.Function {
	if recv.T == nil {
		it.throw("invalid memory address or nil pointer dereference (nil interface)")
	}
	ms := it.Prog.MethodSets.MethodSet(recv.T)
	sel := ms.Lookup(m.Pkg(), m.Name())
	if sel == nil {
		panic(pathEnd{"notenc", fmt.Sprintf("method %s not found on %v", m.Name(), recv.T)})
	}
	fn := it.Prog.MethodValue(sel)
	if fn == nil {
		panic(pathEnd{"notenc", fmt.Sprintf("no method value %s on %v", m.Name(), recv.T)})
	}
	return fn
}

func (it *Interp) doCall(fr *frame, cc *ssa.CallCommon) Value {
	if cc.IsInvoke() {
		recv := it.get(fr, cc.Value).(*Iface)
		fn := it.resolveInvoke(recv, cc.Method)
		args := make([]Value, 0, len(cc.Args)+1)
		args = append(args, recv.V)
		for _, a := range cc.Args {
			args = append(args, it.get(fr, a))
		}
		return it.callFunction(fr, fn, args, nil, cc)
	}
	args := make([]Value, len(cc.Args))
	for i, a := range cc.Args {
		args[i] = it.get(fr, a)
	}
	switch f := cc.Value.(type) {
	case *ssa.Function:
		return it.callFunction(fr, f, args, nil, cc)
	case *ssa.Builtin:
		return it.callBuiltin(fr, f, args, cc)
	}
	fv := it.get(fr, cc.Value).(*Func)
	return it.callValue(fr, fv, args, cc)
}

// ---------------------------------------------------------------------------
// execution

func (it *Interp) exec(fr *frame, block *ssa.BasicBlock) Value {
	var prev *ssa.BasicBlock
	for {
		it.curFrame = fr
		// phis
		nphi := 0
		for _, ins := range block.Instrs {
			if _, ok := ins.(*ssa.Phi); !ok {
				break
			}
			nphi++
		}
		if prev != nil && nphi > 0 {
			var tmp []Value
			for _, ins := range block.Instrs[:nphi] {
				phi := ins.(*ssa.Phi)
				idx := -1
				for i, p := range block.Preds {
					if p == prev {
						idx = i
						break
					}
				}
				tmp = append(tmp, it.get(fr, phi.Edges[idx]))
			}
			for i := 0; i < nphi; i++ {
				fr.regs[block.Instrs[i].(*ssa.Phi)] = tmp[i]
			}
		}
		var next *ssa.BasicBlock
		for _, ins := range block.Instrs[nphi:] {
			it.steps++
			if it.steps > it.MaxSteps {
				panic(pathEnd{"budget", fmt.Sprintf("instruction budget %d exceeded in %s", it.MaxSteps, fr.fn)})
			}
			switch x := ins.(type) {
			case *ssa.If:
				c := it.term(fr, x.Cond)
				if c.IsConst() {
					if c.Val == 1 {
						next = block.Succs[0]
					} else {
						next = block.Succs[1]
					}
				} else if nb, from, ok := it.tryMerge(fr, block, c); ok {
					next = nb
					prev = from
					block = next
					goto continueOuter
				} else if it.branch(c) {
					next = block.Succs[0]
				} else {
					next = block.Succs[1]
				}
			case *ssa.Jump:
				next = block.Succs[0]
			case *ssa.Return:
				switch len(x.Results) {
				case 0:
					return nil
				case 1:
					return it.get(fr, x.Results[0])
				}
				r := make(Tuple, len(x.Results))
				for i, v := range x.Results {
					r[i] = it.get(fr, v)
				}
				return r
			case *ssa.Panic:
				v := it.get(fr, x.X)
				msg := "panic"
				if iv, ok := v.(*Iface); ok && iv.T != nil {
					if s, ok := iv.V.(*Str); ok {
						if cs, ok := it.concreteStr(s); ok {
							msg = "panic: " + cs
						}
					} else {
						msg = "panic: " + iv.T.String()
					}
				}
				panic(&GoPanic{Val: v, Msg: msg})
			default:
				it.instr(fr, ins)
			}
		}
		if next == nil {
			panic("internal: block without terminator")
		}
		if it.blockHits != nil && next.Index <= block.Index {
			it.blockHits[next]++
		}
		prev = block
		block = next
	continueOuter:
	}
}

func (it *Interp) instr(fr *frame, ins ssa.Instruction) {
	switch x := ins.(type) {
	case *ssa.DebugRef:
	case *ssa.Alloc:
		et := x.Type().(*types.Pointer).Elem()
		o := it.newZeroObject(et, 1, "")
		fr.regs[x] = &Ptr{Obj: o, Off: it.c64(0)}
	case *ssa.BinOp:
		fr.regs[x] = it.binop(x.Op, it.get(fr, x.X), it.get(fr, x.Y), x.X.Type(), x.Y.Type())
	case *ssa.UnOp:
		fr.regs[x] = it.unop(fr, x)
	case *ssa.Call:
		fr.regs[x] = it.doCall(fr, &x.Call)
	case *ssa.ChangeInterface:
		fr.regs[x] = it.get(fr, x.X)
	case *ssa.ChangeType:
		fr.regs[x] = it.get(fr, x.X)
	case *ssa.Convert:
		fr.regs[x] = it.convert(it.get(fr, x.X), x.X.Type(), x.Type())
	case *ssa.Defer:
		d := deferred{}
		cc := &x.Call
		if cc.IsInvoke() {
			recv := it.get(fr, cc.Value).(*Iface)
			fn := it.resolveInvoke(recv, cc.Method)
			d.fn = &Func{Fn: fn}
			d.args = append(d.args, recv.V)
		} else {
			switch f := cc.Value.(type) {
			case *ssa.Function:
				d.fn = &Func{Fn: f}
			case *ssa.Builtin:
				d.fn = &Func{Builtin: f}
			default:
				d.fn = it.get(fr, cc.Value).(*Func)
			}
		}
		for _, a := range cc.Args {
			d.args = append(d.args, it.get(fr, a))
		}
		fr.defers = append(fr.defers, d)
	case *ssa.RunDefers:
		it.runDefers(fr)
		if fr.panic != nil {
			// a deferred call panicked during normal return
			p := fr.panic
			fr.panic = nil
			panic(p)
		}
	case *ssa.Go:
		it.doGo(fr, x)
	case *ssa.Extract:
		fr.regs[x] = it.get(fr, x.Tuple).(Tuple)[x.Index]
	case *ssa.Field:
		a := it.get(fr, x.X).(*Agg)
		st := under(x.X.Type()).(*types.Struct)
		off := it.fieldOff(st, x.Field)
		ft := st.Field(x.Field).Type()
		if isAggT(ft) {
			n := it.ncells(ft)
			fr.regs[x] = &Agg{Cells: append([]Value(nil), a.Cells[off:off+n]...)}
		} else {
			fr.regs[x] = a.Cells[off]
		}
	case *ssa.FieldAddr:
		p := it.get(fr, x.X).(*Ptr)
		if p.Obj == nil {
			it.throw("invalid memory address or nil pointer dereference")
		}
		st := under(x.X.Type().(*types.Pointer).Elem()).(*types.Struct)
		off := it.fieldOff(st, x.Field)
		fr.regs[x] = &Ptr{Obj: p.Obj, Off: it.St.Add(p.Off, it.c64(int64(off)))}
	case *ssa.Index:
		it.index(fr, x)
	case *ssa.IndexAddr:
		it.indexAddr(fr, x)
	case *ssa.Lookup:
		it.lookup(fr, x)
	case *ssa.MakeClosure:
		f := &Func{Fn: x.Fn.(*ssa.Function)}
		for _, b := range x.Bindings {
			f.Free = append(f.Free, it.get(fr, b))
		}
		fr.regs[x] = f
	case *ssa.MakeInterface:
		fr.regs[x] = &Iface{T: x.X.Type(), V: it.get(fr, x.X)}
	case *ssa.MakeMap:
		mt := under(x.Type()).(*types.Map)
		it.nextObj++
		fr.regs[x] = &MapV{M: &MapObj{ID: it.nextObj, KT: mt.Key(), VT: mt.Elem()}}
	case *ssa.MakeSlice:
		it.makeSlice(fr, x)
	case *ssa.MapUpdate:
		m := it.get(fr, x.Map).(*MapV)
		it.mapUpdate(m, it.get(fr, x.Key), it.get(fr, x.Value))
	case *ssa.Range:
		it.rangeInit(fr, x)
	case *ssa.Next:
		it.rangeNext(fr, x)
	case *ssa.Phi:
		panic("internal: phi in the middle of a block")
	case *ssa.Slice:
		it.sliceOp(fr, x)
	case *ssa.SliceToArrayPointer:
		s := it.get(fr, x.X).(*Slice)
		at := under(x.Type().(*types.Pointer).Elem()).(*types.Array)
		it.require(it.St.Sle(it.c64(at.Len()), s.Len), "cannot convert slice to array pointer: length too short")
		if s.Obj == nil {
			fr.regs[x] = &Ptr{}
		} else {
			fr.regs[x] = &Ptr{Obj: s.Obj, Off: s.Off}
		}
	case *ssa.Store:
		p := it.get(fr, x.Addr).(*Ptr)
		it.store(p, it.get(fr, x.Val), x.Val.Type())
	case *ssa.TypeAssert:
		it.typeAssert(fr, x)
	default:
		panic(pathEnd{"notenc", fmt.Sprintf("instruction %T (%v) in %s", ins, ins, fr.fn)})
	}
}

// ---------------------------------------------------------------------------
// operators

func (it *Interp) shiftAmount(y *Term, ysigned bool, w int) (amt *Term, big *Term) {
	// returns amount at width w and condition "amount >= w"
	st := it.St
	if ysigned {
		neg := st.Slt(y, st.Const(y.S.W, 0))
		it.require(st.Not(neg), "negative shift amount")
	}
	if y.S.W <= w {
		amt = st.Zext(y, w)
		big = st.Ule(st.Const(w, uint64(w)), amt)
		return
	}
	big = st.Ule(st.Const(y.S.W, uint64(w)), y)
	amt = st.Extract(y, w-1, 0)
	return
}

func (it *Interp) binop(op token.Token, a, b Value, ta, tb types.Type) Value {
	st := it.St
	switch x := a.(type) {
	case *Term:
		y, ok := b.(*Term)
		if !ok {
			break
		}
		if x.S.K == SBool {
			switch op {
			case token.EQL:
				return st.Eq(x, y)
			case token.NEQ:
				return st.Ne(x, y)
			case token.AND, token.LAND:
				return st.And(x, y)
			case token.OR, token.LOR:
				return st.Or(x, y)
			}
		}
		if x.S.K == SFP {
			if len(it.fpLazy) > 0 {
				if _, isq := it.fpDiv[x]; !(isq && op == token.QUO && y.IsConst()) {
					it.fpForce(x)
				}
				it.fpForce(y)
			}
			switch op {
			case token.ADD:
				return st.fbin(OFAdd, x, y)
			case token.SUB:
				return st.fbin(OFSub, x, y)
			case token.MUL:
				return st.fbin(OFMul, x, y)
			case token.QUO:
				if dv, ok := it.fpDiv[x]; ok && y.IsConst() {
					if q, ok := dv[y.Val]; ok {
						it.freshN["fp"]++
						v := st.Var(fmt.Sprintf("fp#q%d_%d", it.freshN["fp"], x.ID), FPSort)
						it.fpInt[v] = q
						return v
					}
				}
				return st.fbin(OFDiv, x, y)
			case token.LSS:
				return st.fcmp(OFLt, x, y)
			case token.LEQ:
				return st.fcmp(OFLe, x, y)
			case token.GTR:
				return st.fcmp(OFLt, y, x)
			case token.GEQ:
				return st.fcmp(OFLe, y, x)
			case token.EQL:
				return st.fcmp(OFEq, x, y)
			case token.NEQ:
				return st.Not(st.fcmp(OFEq, x, y))
			}
			break
		}
		signed := isSigned(ta)
		switch op {
		case token.ADD:
			return st.Add(x, y)
		case token.SUB:
			return st.Sub(x, y)
		case token.MUL:
			return st.Mul(x, y)
		case token.QUO:
			it.require(st.Ne(y, st.Const(y.S.W, 0)), "integer divide by zero")
			if signed {
				return st.SDiv(x, y)
			}
			return st.UDiv(x, y)
		case token.REM:
			it.require(st.Ne(y, st.Const(y.S.W, 0)), "integer divide by zero")
			if signed {
				return st.SRem(x, y)
			}
			return st.URem(x, y)
		case token.AND:
			return st.BAnd(x, y)
		case token.OR:
			return st.BOr(x, y)
		case token.XOR:
			return st.BXor(x, y)
		case token.AND_NOT:
			return st.BAnd(x, st.BNot(y))
		case token.SHL:
			amt, big := it.shiftAmount(y, isSigned(tb), x.S.W)
			return st.Ite(big, st.Const(x.S.W, 0), st.Shl(x, amt))
		case token.SHR:
			amt, big := it.shiftAmount(y, isSigned(tb), x.S.W)
			if signed {
				return st.Ite(big, st.AShr(x, st.Const(x.S.W, uint64(x.S.W-1))), st.AShr(x, amt))
			}
			return st.Ite(big, st.Const(x.S.W, 0), st.LShr(x, amt))
		case token.EQL:
			return st.Eq(x, y)
		case token.NEQ:
			return st.Ne(x, y)
		case token.LSS:
			if signed {
				return st.Slt(x, y)
			}
			return st.Ult(x, y)
		case token.LEQ:
			if signed {
				return st.Sle(x, y)
			}
			return st.Ule(x, y)
		case token.GTR:
			if signed {
				return st.Slt(y, x)
			}
			return st.Ult(y, x)
		case token.GEQ:
			if signed {
				return st.Sle(y, x)
			}
			return st.Ule(y, x)
		}
	case *Str:
		y := b.(*Str)
		switch op {
		case token.ADD:
			return it.strConcat([]*Str{x, y})
		case token.EQL:
			return it.strEq(x, y)
		case token.NEQ:
			return st.Not(it.strEq(x, y))
		case token.LSS, token.LEQ, token.GTR, token.GEQ:
			return it.strCmp(op, x, y)
		}
	}
	switch op {
	case token.EQL:
		return it.valueEq(a, b)
	case token.NEQ:
		return st.Not(it.valueEq(a, b))
	}
	panic(pathEnd{"notenc", fmt.Sprintf("binop %v on %s, %s", op, describe(a), describe(b))})
}

// valueEq is Go's == on arbitrary comparable values.
func (it *Interp) valueEq(a, b Value) *Term {
	st := it.St
	switch x := a.(type) {
	case *Term:
		if y, ok := b.(*Term); ok {
			if x.S.K == SFP {
				return st.fcmp(OFEq, x, y)
			}
			if x.S != y.S {
				return st.F
			}
			return st.Eq(x, y)
		}
	case *Str:
		if y, ok := b.(*Str); ok {
			return it.strEq(x, y)
		}
	case *Ptr:
		if y, ok := b.(*Ptr); ok {
			if x.Obj != y.Obj {
				return st.F
			}
			if x.Obj == nil {
				return st.T
			}
			return st.Eq(x.Off, y.Off)
		}
		if y, ok := b.(*Func); ok {
			return st.Bool(x.Obj == nil && y.Fn == nil && y.Builtin == nil && y.Native == nil)
		}
	case *Slice:
		// only comparison with nil is legal
		if y, ok := b.(*Slice); ok {
			if y.Obj == nil {
				return st.Bool(x.Obj == nil)
			}
			if x.Obj == nil {
				return st.Bool(y.Obj == nil)
			}
		}
		if y, ok := b.(*Ptr); ok && y.Obj == nil {
			return st.Bool(x.Obj == nil)
		}
	case *MapV:
		if y, ok := b.(*MapV); ok {
			return st.Bool(x.M == y.M)
		}
		if y, ok := b.(*Ptr); ok && y.Obj == nil {
			return st.Bool(x.M == nil)
		}
	case *Func:
		isNil := x.Fn == nil && x.Builtin == nil && x.Native == nil
		switch y := b.(type) {
		case *Func:
			return st.Bool(isNil && y.Fn == nil && y.Builtin == nil && y.Native == nil)
		case *Ptr:
			return st.Bool(isNil && y.Obj == nil)
		}
	case *Iface:
		if y, ok := b.(*Iface); ok {
			if x.T == nil || y.T == nil {
				return st.Bool(x.T == nil && y.T == nil)
			}
			if !types.Identical(x.T, y.T) {
				return st.F
			}
			return it.valueEq(x.V, y.V)
		}
		if y, ok := b.(*Ptr); ok && y.Obj == nil {
			return st.Bool(x.T == nil)
		}
	case *Agg:
		if y, ok := b.(*Agg); ok && len(x.Cells) == len(y.Cells) {
			r := st.T
			for i := range x.Cells {
				r = st.And(r, it.valueEq(x.Cells[i], y.Cells[i]))
			}
			return r
		}
	}
	panic(pathEnd{"notenc", fmt.Sprintf("== on %s, %s", describe(a), describe(b))})
}

func (it *Interp) unop(fr *frame, x *ssa.UnOp) Value {
	st := it.St
	v := it.get(fr, x.X)
	switch x.Op {
	case token.MUL:
		p := v.(*Ptr)
		return it.load(p, x.Type())
	case token.NOT:
		return st.Not(v.(*Term))
	case token.SUB:
		t := v.(*Term)
		if t.S.K == SFP {
			return st.FUn(OFNeg, t)
		}
		return st.Neg(t)
	case token.XOR:
		return st.BNot(v.(*Term))
	}
	panic(pathEnd{"notenc", fmt.Sprintf("unop %v", x.Op)})
}

func (it *Interp) convert(v Value, from, to types.Type) Value {
	st := it.St
	uf, ut := under(from), under(to)
	switch x := v.(type) {
	case *Term:
		if isString(to) {
			// integer -> string (rune)
			r := x
			if r.S.W < 32 {
				if isSigned(from) {
					r = st.Sext(r, 32)
				} else {
					r = st.Zext(r, 32)
				}
			} else if r.S.W > 32 {
				// values outside rune range become U+FFFD
				in := st.Ult(r, st.Const(r.S.W, 0x110000))
				r = st.Ite(in, st.Extract(r, 31, 0), st.Const(32, 0xFFFD))
			}
			return it.runeToStr(r)
		}
		if bt, ok := ut.(*types.Basic); ok && bt.Kind() == types.UnsafePointer {
			panic(pathEnd{"notenc", "conversion to unsafe.Pointer"})
		}
		so := it.sortOf(to)
		switch {
		case x.S.K == SBV && so.K == SBV:
			if so.W <= x.S.W {
				return st.Extract(x, so.W-1, 0)
			}
			if isSigned(from) {
				return st.Sext(x, so.W)
			}
			return st.Zext(x, so.W)
		case x.S.K == SBV && so.K == SFP:
			return st.IntToF(x, isSigned(from))
		case x.S.K == SFP && so.K == SBV:
			if iv, ok := it.fpInt[x]; ok {
				if so.W < 64 {
					return st.Extract(iv, so.W-1, 0)
				}
				return iv
			}
			return st.FToInt(x, so.W, isSigned(to))
		case x.S.K == SFP && so.K == SFP:
			return x
		case x.S.K == SBool && so.K == SBool:
			return x
		}
	case *Str:
		if sl, ok := ut.(*types.Slice); ok {
			eb := under(sl.Elem()).(*types.Basic)
			if eb.Kind() == types.Uint8 {
				return it.strToBytes(x)
			}
			if eb.Kind() == types.Int32 {
				return it.strToRunes(x)
			}
		}
		if isString(to) {
			return x
		}
	case *Slice:
		if isString(to) {
			eb := under(uf.(*types.Slice).Elem()).(*types.Basic)
			if eb.Kind() == types.Uint8 {
				return it.bytesToStr(x)
			}
			if eb.Kind() == types.Int32 {
				return it.runesToStr(x)
			}
		}
		if _, ok := ut.(*types.Slice); ok {
			return x
		}
	case *Ptr:
		return x
	}
	panic(pathEnd{"notenc", fmt.Sprintf("convert %s from %v to %v", describe(v), from, to)})
}

// ---------------------------------------------------------------------------
// indexing / slicing

func (it *Interp) boundsCheck(idx *Term, n *Term, msg string) {
	st := it.St
	// 0 <= idx < n  (both 64-bit signed)  == idx <u n when n >= 0
	it.require(st.Ult(idx, n), msg)
}

func (it *Interp) idx64(fr *frame, v ssa.Value) *Term {
	t := it.term(fr, v)
	if t.S.W == 64 {
		return t
	}
	if isSigned(v.Type()) {
		return it.St.Sext(t, 64)
	}
	return it.St.Zext(t, 64)
}

func (it *Interp) index(fr *frame, x *ssa.Index) {
	st := it.St
	base := it.get(fr, x.X)
	idx := it.idx64(fr, x.Index)
	switch b := base.(type) {
	case *Agg:
		at := under(x.X.Type()).(*types.Array)
		ec := it.ncells(at.Elem())
		it.boundsCheck(idx, it.c64(at.Len()), "index out of range")
		if idx.IsConst() {
			i := int(idx.Val)
			if isAggT(at.Elem()) {
				fr.regs[x] = &Agg{Cells: append([]Value(nil), b.Cells[i*ec:(i+1)*ec]...)}
			} else {
				fr.regs[x] = b.Cells[i]
			}
			return
		}
		tmp := &Object{ID: -2, Cells: b.Cells}
		p := &Ptr{Obj: tmp, Off: st.Mul(idx, it.c64(int64(ec)))}
		fr.regs[x] = it.load(p, at.Elem())
		return
	case *Str:
		it.boundsCheck(idx, b.Len, "index out of range")
		fr.regs[x] = it.loadCell(b.Obj, st.Add(b.Off, idx))
		return
	}
	panic(pathEnd{"notenc", "index on " + describe(base)})
}

func (it *Interp) indexAddr(fr *frame, x *ssa.IndexAddr) {
	st := it.St
	base := it.get(fr, x.X)
	idx := it.idx64(fr, x.Index)
	switch b := base.(type) {
	case *Slice:
		it.boundsCheck(idx, b.Len, "index out of range")
		off := st.Add(b.Off, st.Mul(idx, it.c64(int64(b.ECells))))
		fr.regs[x] = &Ptr{Obj: b.Obj, Off: off}
		return
	case *Ptr:
		if b.Obj == nil {
			it.throw("invalid memory address or nil pointer dereference")
		}
		at := under(x.X.Type().(*types.Pointer).Elem()).(*types.Array)
		ec := it.ncells(at.Elem())
		it.boundsCheck(idx, it.c64(at.Len()), "index out of range")
		fr.regs[x] = &Ptr{Obj: b.Obj, Off: st.Add(b.Off, st.Mul(idx, it.c64(int64(ec))))}
		return
	}
	panic(pathEnd{"notenc", "indexaddr on " + describe(base)})
}

func (it *Interp) sliceOp(fr *frame, x *ssa.Slice) {
	st := it.St
	base := it.get(fr, x.X)
	var lo, hi, mx *Term
	if x.Low != nil {
		lo = it.idx64(fr, x.Low)
	}
	if x.High != nil {
		hi = it.idx64(fr, x.High)
	}
	if x.Max != nil {
		mx = it.idx64(fr, x.Max)
	}
	switch b := base.(type) {
	case *Str:
		if lo == nil {
			lo = it.c64(0)
		}
		if hi == nil {
			hi = b.Len
		}
		it.require(st.Ule(hi, b.Len), "slice bounds out of range [:hi] with length")
		it.require(st.Ule(lo, hi), "slice bounds out of range [lo:hi]")
		fr.regs[x] = &Str{Obj: b.Obj, Off: st.Add(b.Off, lo), Len: st.Sub(hi, lo)}
		return
	case *Slice:
		if lo == nil {
			lo = it.c64(0)
		}
		if hi == nil {
			hi = b.Len
		}
		capv := b.Cap
		if mx != nil {
			it.require(st.Ule(mx, b.Cap), "slice bounds out of range [::max] with capacity")
			it.require(st.Ule(hi, mx), "slice bounds out of range [:hi:max]")
			capv = mx
		} else {
			it.require(st.Ule(hi, b.Cap), "slice bounds out of range [:hi] with capacity")
		}
		it.require(st.Ule(lo, hi), "slice bounds out of range [lo:hi]")
		if b.Obj == nil {
			fr.regs[x] = b
			return
		}
		fr.regs[x] = &Slice{Obj: b.Obj, Off: st.Add(b.Off, st.Mul(lo, it.c64(int64(b.ECells)))), Len: st.Sub(hi, lo), Cap: st.Sub(capv, lo), ECells: b.ECells}
		return
	case *Ptr:
		if b.Obj == nil {
			it.throw("invalid memory address or nil pointer dereference")
		}
		at := under(x.X.Type().(*types.Pointer).Elem()).(*types.Array)
		ec := it.ncells(at.Elem())
		n := it.c64(at.Len())
		if lo == nil {
			lo = it.c64(0)
		}
		if hi == nil {
			hi = n
		}
		capv := n
		if mx != nil {
			it.require(st.Ule(mx, n), "slice bounds out of range [::max] with capacity")
			it.require(st.Ule(hi, mx), "slice bounds out of range [:hi:max]")
			capv = mx
		} else {
			it.require(st.Ule(hi, n), "slice bounds out of range [:hi] with capacity")
		}
		it.require(st.Ule(lo, hi), "slice bounds out of range [lo:hi]")
		fr.regs[x] = &Slice{Obj: b.Obj, Off: st.Add(b.Off, st.Mul(lo, it.c64(int64(ec)))), Len: st.Sub(hi, lo), Cap: st.Sub(capv, lo), ECells: ec}
		return
	}
	panic(pathEnd{"notenc", "slice of " + describe(base)})
}

func (it *Interp) makeSlice(fr *frame, x *ssa.MakeSlice) {
	st := it.St
	et := under(x.Type()).(*types.Slice).Elem()
	ln := it.idx64(fr, x.Len)
	cp := it.idx64(fr, x.Cap)
	it.require(st.Sle(it.c64(0), ln), "makeslice: len out of range")
	it.require(st.Sle(ln, cp), "makeslice: cap out of range")
	it.allocCheck(cp, it.ncells(et))
	n := it.boundOf(cp, "make")
	if it.ConcretizeAlloc && !cp.IsConst() && n <= 300 && ln == cp {
		// small symbolic size: fork on its value so that cursors derived from it stay concrete
		v := it.concretize(cp)
		cp = it.c64(int64(v))
		ln = cp
		n = int(v)
	}
	o := it.newZeroObject(et, n, "")
	fr.regs[x] = &Slice{Obj: o, Off: it.c64(0), Len: ln, Cap: cp, ECells: it.ncells(et)}
}

// boundOf returns a concrete upper bound for a (possibly symbolic) size, at most AllocLimit;
// if the size may exceed AllocLimit the path continues under the assumption that it does not.
func (it *Interp) boundOf(sz *Term, what string) int {
	if sz.IsConst() {
		if sz.Val > uint64(1<<26) {
			panic(pathEnd{"abort", fmt.Sprintf("%s: concrete size %d too large to model", what, sz.Val)})
		}
		return int(sz.Val)
	}
	_, hi := it.St.rangeOf(sz)
	if hi <= uint64(it.AllocLimit) {
		return int(hi)
	}
	// ask the solver for the maximum under the path condition
	lim := uint64(it.AllocLimit)
	if it.feasible(it.St.Ult(it.c64(int64(lim)), sz)) {
		// may exceed the modelling limit: continue with sz <= limit
		if it.path != nil {
			it.path.Notes = append(it.path.Notes, fmt.Sprintf("%s size may exceed modelling limit %d; continuing under size<=limit", what, lim))
			it.path.Truncated = true
		}
		it.assume(it.St.Ule(sz, it.c64(int64(lim))))
		return int(lim)
	}
	// binary search for max
	lo, hiB := uint64(0), lim
	for lo < hiB {
		mid := (lo + hiB) / 2
		if it.feasible(it.St.Ult(it.c64(int64(mid)), sz)) {
			lo = mid + 1
		} else {
			hiB = mid
		}
	}
	return int(lo)
}

func (it *Interp) typeAssert(fr *frame, x *ssa.TypeAssert) {
	v := it.get(fr, x.X).(*Iface)
	at := x.AssertedType
	var ok bool
	var res Value
	if _, isIface := under(at).(*types.Interface); isIface {
		if v.T != nil {
			ok = types.Implements(v.T, under(at).(*types.Interface))
			if !ok {
				if _, isPtr := v.T.(*types.Pointer); !isPtr {
					// method sets of T only
					ok = false
				}
			}
		}
		if ok {
			res = v
		} else {
			res = &Iface{}
		}
	} else {
		ok = v.T != nil && types.Identical(v.T, at)
		if ok {
			res = v.V
		} else {
			res = it.zero(at)
		}
	}
	if x.CommaOk {
		fr.regs[x] = Tuple{res, it.St.Bool(ok)}
		return
	}
	if !ok {
		it.throw(fmt.Sprintf("interface conversion: interface is %v, not %v", v.T, at))
	}
	fr.regs[x] = res
}

func fnName(fn *ssa.Function) string {
	return strings.TrimSpace(fn.String())
}

// StackString renders the interpreted call stack (diagnostics).
func (it *Interp) StackString() string {
	var sb strings.Builder
	for f := it.curFrame; f != nil; f = f.caller {
		sb.WriteString("  ")
		sb.WriteString(f.fn.String())
		sb.WriteString("\n")
	}
	return sb.String()
}
