package sym

import "math/bits"

// rangeOf is a cheap syntactic unsigned interval analysis.
func (s *Store) rangeOf(t *Term) (lo, hi uint64) {
	if t.S.K != SBV {
		return 0, 1
	}
	if t.Op == OConst {
		return t.Val, t.Val
	}
	if r, ok := s.ranges[t.ID]; ok {
		return r[0], r[1]
	}
	lo, hi = s.rangeOf1(t)
	if s.ranges == nil {
		s.ranges = map[int][2]uint64{}
	}
	s.ranges[t.ID] = [2]uint64{lo, hi}
	return
}

func (s *Store) rangeOf1(t *Term) (lo, hi uint64) {
	full := mask(t.S.W)
	switch t.Op {
	case OConst:
		return t.Val, t.Val
	case OVar:
		return 0, full
	case OZext:
		return s.rangeOf(t.Args[0])
	case OSext:
		l, h := s.rangeOf(t.Args[0])
		if h < uint64(1)<<uint(t.Args[0].S.W-1) {
			return l, h
		}
		return 0, full
	case OAdd:
		al, ah := s.rangeOf(t.Args[0])
		bl, bh := s.rangeOf(t.Args[1])
		sum, c := bits.Add64(ah, bh, 0)
		if c == 0 && sum <= full {
			return al + bl, sum
		}
		// constant negative offset: x + (-k) with x >= k
		if t.Args[1].IsConst() {
			k := (-t.Args[1].Val) & full
			if k <= al && k < (uint64(1)<<uint(t.S.W-1)) {
				return al - k, ah - k
			}
		}
		return 0, full
	case OSub:
		al, ah := s.rangeOf(t.Args[0])
		bl, bh := s.rangeOf(t.Args[1])
		if al >= bh {
			return al - bh, ah - bl
		}
		return 0, full
	case OMul:
		al, ah := s.rangeOf(t.Args[0])
		bl, bh := s.rangeOf(t.Args[1])
		h, l := bits.Mul64(ah, bh)
		if h == 0 && l <= full {
			return al * bl, l
		}
		return 0, full
	case OIte:
		al, ah := s.rangeOf(t.Args[1])
		bl, bh := s.rangeOf(t.Args[2])
		if bl < al {
			al = bl
		}
		if bh > ah {
			ah = bh
		}
		return al, ah
	case OBAnd:
		_, ah := s.rangeOf(t.Args[0])
		_, bh := s.rangeOf(t.Args[1])
		if bh < ah {
			ah = bh
		}
		return 0, ah
	case OBOr, OBXor:
		_, ah := s.rangeOf(t.Args[0])
		_, bh := s.rangeOf(t.Args[1])
		m := ah | bh
		// round up to all-ones
		n := bits.Len64(m)
		return 0, mask(n) & full
	case OLShr:
		if t.Args[1].IsConst() {
			al, ah := s.rangeOf(t.Args[0])
			k := t.Args[1].Val
			if k >= 64 {
				return 0, 0
			}
			return al >> k, ah >> k
		}
		_, ah := s.rangeOf(t.Args[0])
		return 0, ah
	case OShl:
		if t.Args[1].IsConst() {
			al, ah := s.rangeOf(t.Args[0])
			k := t.Args[1].Val
			if k < 64 && bits.Len64(ah)+int(k) <= t.S.W {
				return al << k, ah << k
			}
		}
		return 0, full
	case OExtract:
		if t.B == 0 {
			al, ah := s.rangeOf(t.Args[0])
			if ah <= full {
				return al, ah
			}
		}
		return 0, full
	case OURem:
		if t.Args[1].IsConst() && t.Args[1].Val > 0 {
			return 0, t.Args[1].Val - 1
		}
		_, ah := s.rangeOf(t.Args[0])
		return 0, ah
	case OUDiv:
		al, ah := s.rangeOf(t.Args[0])
		if t.Args[1].IsConst() && t.Args[1].Val > 0 {
			return al / t.Args[1].Val, ah / t.Args[1].Val
		}
		return 0, ah
	case OConcat:
		_, ah := s.rangeOf(t.Args[0])
		lw := uint(t.Args[1].S.W)
		return 0, (ah<<lw | mask(int(lw))) & full
	}
	return 0, full
}
