package sym

import (
	"fmt"
	"go/types"

	"golang.org/x/tools/go/ssa"
)

// Value is one of: *Term, *Ptr, *Slice, *Str, *Agg, *Iface, *MapV, *Func, Tuple.
type Value interface{}

// Object is a heap object: a flat vector of leaf cells.
type Object struct {
	ID     int
	Cells  []Value
	Tag    string // "", "input", "pool", "global", "const"
	Zero   Value  // zero leaf for growing (byte objects)
	Global bool   // created by package initialisation or backing a package-level variable
	Label  string
}

type Ptr struct {
	Obj *Object
	Off *Term // cell offset (BV64)
	// for symbolic Off: candidates are Lo + k*Stride for 0<=k<Count
	Lo, Stride, Count int
	Fn                *Func // pointer to function value? unused
}

type Slice struct {
	Obj    *Object
	Off    *Term // cell offset of element 0 (BV64)
	Len    *Term // elements (BV64)
	Cap    *Term // elements (BV64)
	ECells int   // cells per element
}

type Str struct {
	Obj *Object
	Off *Term
	Len *Term
}

type Agg struct {
	Cells []Value
}

type Iface struct {
	T types.Type // nil for nil interface
	V Value
}

type MapObj struct {
	ID   int
	Keys []Value
	Vals []Value
	KT   types.Type
	VT   types.Type
}

type MapV struct {
	M *MapObj
}

type Func struct {
	Fn      *ssa.Function
	Free    []Value
	Builtin *ssa.Builtin
	Native  func(it *Interp, args []Value) Value // engine-provided closure
}

type Tuple []Value

// RangeIter is the iterator state of a range over map or string.
type RangeIter struct {
	IsMap bool
	Keys  []Value
	Vals  []Value
	S     *Str
	Pos   *Term
	I     int
}

func (p *Ptr) IsNil() bool   { return p.Obj == nil }
func (s *Slice) IsNil() bool { return s.Obj == nil }

func describe(v Value) string {
	switch x := v.(type) {
	case nil:
		return "<nil-value>"
	case *Term:
		return x.String()
	case *Ptr:
		if x.Obj == nil {
			return "ptr(nil)"
		}
		return fmt.Sprintf("ptr(o%d+%v)", x.Obj.ID, x.Off)
	case *Slice:
		if x.Obj == nil {
			return "slice(nil)"
		}
		return fmt.Sprintf("slice(o%d+%v len=%v cap=%v)", x.Obj.ID, x.Off, x.Len, x.Cap)
	case *Str:
		return fmt.Sprintf("str(len=%v)", x.Len)
	case *Agg:
		return fmt.Sprintf("agg(%d)", len(x.Cells))
	case *Iface:
		if x.T == nil {
			return "iface(nil)"
		}
		return fmt.Sprintf("iface(%v)", x.T)
	case *MapV:
		if x.M == nil {
			return "map(nil)"
		}
		return fmt.Sprintf("map(%d entries)", len(x.M.Keys))
	case *Func:
		if x.Fn != nil {
			return "func " + x.Fn.String()
		}
		return "func(builtin/native)"
	case Tuple:
		return fmt.Sprintf("tuple(%d)", len(x))
	}
	return fmt.Sprintf("%T", v)
}
